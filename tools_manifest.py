#!/venv/bin/python
"""Regenerates /verif/MANIFEST.json from one table (keeps it valid and in step with the checks)."""
import json, os
HERE = os.path.dirname(os.path.abspath(__file__))

NA = {
 'C01': 'quaternion<->matrix homomorphism: pure algebra of the arguments; no state, time, fault or schedule to simulate',
 'C02': 'DCM->quaternion methods invert quaternion->DCM: pure function of (R, method); failures live in thin regions of SO(3), an input-space question',
 'C04': 'single-frame estimators exact on consistent data: stateless per-sample functions; a simulator would only be an input generator',
 'C07': 'array entry points equal scalar ones row by row: two copies of a pure formula on the same input; no history (the stateful analogue, C06, is claimed)',
 'C09': 'Hamilton algebra laws: pure algebra',
 'C10': 'representation round-trips: pure functions of angles/axes/exponents',
 'C11': 'constructors produce valid rotations / reject invalid input: pure input validation (the RNG in random_attitudes is only an input source)',
 'C14': 'WMM equals the harmonic synthesis of the coefficient file: pure function of (date, place); needs an independent evaluator, not schedules (C15 covers the stateful/clock side)',
 'C16': 'ellipsoid gravity identities: pure closed-form identities over parameters',
 'C17': 'frame transformations are mutually inverse: pure functions',
 'C18': 'rotation metrics are bi-invariant distances: pure functions',
 'C20': 'Sensors output agrees with its ground truth: pure function of (configuration, generator state); its only history is a module-global PRNG the property does not speak about',
}

CHECKS = {}

def add(pid, category, text, note, technique, design_ref):
    CHECKS[pid] = {
        'property_id': pid,
        'quick_cmd': f'./check {pid} --tier quick',
        'thorough_cmd': f'./check {pid} --tier thorough',
        'evidence_file': f'/verif/evidence/{pid}.json',
        'replay_cmd_template': f'./check {pid} --replay {{path}}',
        'engine': 'ahrs_sim',
        'level_claimed': {'category': category, 'text': text, 'design_ref': design_ref},
        'level_note': note,
        'technique': technique,
    }

add('C06', 'exploration',
    'Seeded search over schedules and histories: 2-5 real filter instances (possibly sharing parameter arrays) are stepped one public call at a time in a seeded interleaving over a faulted sensor history; each stream is checked against the class\'s own batch constructor (refinement, 1e-12), against a solo re-execution (isolation, bit equality) and the whole run against re-execution in-process and in a fresh interpreter (determinism). Sampling, not proof.',
    'Reference model is the library\'s own batch constructor run solo on private copies; the convention table is not needed; calendar frozen; granularity one public call.',
    'deterministic simulation: seeded scheduler + sensor-bus fault injection, refinement against the batch constructor, digest replay', 'DESIGN.md section 2 C06')

add('C13', 'fault_enumeration',
    'Dropout faults (all-zero accelerometer/magnetometer/gyroscope rows) are enumerated over a grid of sensor subsets x start positions x lengths for every recursive filter x architecture (streaming update method and batch constructor) on a motion history with a kick, plus seeded random patterns with a second fault kind in the window. Safety (finite real unit quaternion or ValueError, for that sample and every later one) is checked at every step; recovery is checked against the twin run of the same filter on the same history without the dropouts.',
    'Recovery tolerances/tails are pinned constants per filter and gain set (calibrated on the repaired tree) combined with a relative criterion (half of the peak lag shed); a carry-on oracle decides the clause "skips its correction" (through an acc/mag dropout with a valid gyroscope a filter that refused nothing moves at least half as far as the smaller of gyroscope dead reckoning and its dropout-free twin; EKF, which returns the prior, is exempt); Fourati gets the safety oracle only; LinAlgError counts as breakdown, not refusal; filters already invalid without dropouts are left to C03.',
    'deterministic simulation: enumerated + seeded dropout injection on the sensor bus, twin-run recovery oracle, replay files', 'DESIGN.md section 2 C13')

add('C03', 'exploration',
    'Seeded search over histories, fault sequences and configurations: every class exported by ahrs.filters is both streamed on the shared sensor bus (seeded interleaving) and run through its batch constructor over histories with glitch/scale/stuck/dup faults, kicks, magnitudes over decades and exact canonical poses; after every step and on every batch row the output must be one finite real unit quaternion (or proper rotation / finite angle triple) per sample. For the recursive filters this exercises state carried over histories; for single-frame estimators the simulator is only an input source (stated in the evidence).',
    'Inputs are well-formed by construction, so any exception is a violation; 1e-9 tolerances; 22 open known findings (UKF breakdown; EKF covariance overflow at more than a radian per sample; AQUA 0/0 at exact half-turns; closed-form singularities of SAAM/FAMC/FLAE/FQA/QUEST at exact axis-aligned poses; FLAE symbolic on exactly consistent data) are keyed by component, symptom and an input-feature trigger pattern.',
    'deterministic simulation: seeded scheduler + sensor-bus fault injection, per-step validity invariant on real filter instances', 'DESIGN.md section 2 C03')

add('C08', 'exploration',
    'Seeded search over simulated trajectories: constant-rate runs (AngularRate closed form streamed and batch vs the closed-form truth at every tick; series orders 0-6 against the closed form per step), motion histories with accelerometer dropouts (Madgwick, Mahony, AQUA must advance by the normalised first-order step on every null-accelerometer tick; EKF.f and ROLEQ.attitude_propagation on every tick), and recorder round trips (angular_velocities re-integrated).',
    'Closed-form truth computed by the harness; series bound constant 2.5 and round-trip constant 0.05 from probes on the repaired tree; the asymptotic-order clause is a per-step comparison, the weakest fit for this technique.',
    'deterministic simulation: time-stepping nodes vs closed-form truth of simulated time, dropout injection for the dead-reckoning clause', 'DESIGN.md section 2 C08')

add('C15', 'exploration',
    'Seeded search over operation histories and calendar faults: up to 40 operations (construct with float/int/date/None dates, magnetic_field with explicit, kept or omitted date, reset_coefficients, reset_date, omitted height, reads of the elements and of geodetic_vector, a second constructor for the same date and place in the other frame) on a pool of 1-3 long-lived WMM objects, interleaved with simulated calendar jumps across epoch and rounding boundaries; every answer is compared (1e-9) with a single-copy reference model whose expected elements come from a fresh object through one canonical route, plus step invariants (H/F/I/D from X/Y/Z, ENU vs NED twin, +-180, poles, equator and prime meridian).',
    'Reference is the package\'s own evaluator on a fresh object (decides path/history independence, not absolute correctness, which is C14); calendar seam is a datetime shim bound into ahrs.utils.wmm at import; no I/O fault injected.',
    'deterministic simulation: operation histories against a reference model, calendar clock seam with jump faults', 'DESIGN.md section 2 C15')

add('C12', 'fault_enumeration',
    'Partial claim (the part with a fault pattern in it): a recorder stores the attitude sequence of a turning body through a lossy link with loss (row -> NaN) and signflip (row -> -row) faults; every interior loss mask for records of up to 10 (quick) / 14 (thorough) rows x 4 spin rates x 5 sign-flip patterns is enumerated, plus seeded long records; the real QuaternionArray.slerp_nan / remove_jumps repair is compared with a reference shortest-arc constant-speed SLERP (1e-5 rad), valid rows must come back bit-identical up to sign, loss-free records pass through, and after remove_jumps no sign jump remains.',
    'Arbitrary endpoint pairs / weight vectors of the free slerp() function are input generation and not claimed (both package SLERPs are driven with the weights of each gap plus the end weights 0 and 1); the last row is never lost, leading lost rows are not judged; records may be loaded into an existing object through from_DCM and may be hit by a second burst of losses after the first repair; spin below pi rad per tick.',
    'deterministic simulation: enumerated loss/signflip fault masks on a recorder link, reference-model comparison', 'DESIGN.md section 2 C12')

add('C19', 'exploration',
    'Weakest fit, stated as such: the sensor-bus pipeline with every estimator class streamed and batch-constructed on shared zero-copy arrays under a seeded interleaving, with a bus monitor digesting every caller-owned buffer after every task step, plus a toolbox task that applies ~200 public callables (found by introspection, bound to live data: estimates, samples, matrices, angles in degrees/radians, normalised or not, scalars/0-d/1-d/N-row arrays) twice each with the RNG restored: argument bytes must be unchanged and results identical.',
    'The verdict of one call is a before/after digest; the simulation decides which buffers are live and shared. Callables the binder cannot serve or that reject the generated arguments are listed/counted in the evidence, not counted as covered; inplace=True options are not exercised; update methods of the classes without estimator state are called twice with a disturbing call (other samples, explicit dt, other method) in between; a run whose event log differs when executed again is a violation (repeatability is the subject).',
    'deterministic simulation: shared-buffer monitor under a seeded scheduler + introspected toolbox task on live data', 'DESIGN.md section 2 C19')

add('C05', 'exploration',
    'Bounded liveness by seeded search: a motionless body at a seeded true attitude, exact accelerometer/magnetometer images in each filter\'s own convention, gyro noise only; each recursive filter (Madgwick, Mahony, EKF, UKF, AQUA, ROLEQ streamed; Complementary, FKF batch) is started 0-175 degrees from the truth through the route the class offers (q0, w0, first a-priori quaternion) with default and non-default gains, dt 2-50 ms, NED/ENU; the error history must be below the filter\'s tolerance from the budgeted sample on (eventually-always), end no worse than it started, and the e0=0 twin must stay at the truth.',
    'Budgets come from a pinned table measured once on the repaired tree (x3 margin); tolerances are fixed formulas; the convention table is an assumption whose standing self-check is the e0=0 twin; cells needing >60000 samples are not exercised; UKF does not converge at all and FKF converges erratically (6 open known findings).',
    'deterministic simulation: time-stepped filter nodes against a stub world, bounded-liveness oracle over the recorded error history', 'DESIGN.md section 2 C05')

def build():
    m = {
        'version': 1,
        'setup_cmd': 'chmod +x /verif/check /verif/sim/main.py && /venv/bin/python -c "import numpy, sys; sys.path.insert(0, \'/verif/sim\'); import ahrs_sim.boot as b; b.boot(); print(\'ahrs_sim ready, numpy\', numpy.__version__)"',
        'hooks': {
            'guard': 'AHRS_VERIF',
            'enable': 'no guarded code exists in /repo: every seam (calendar, NumPy global RNG, pkgutil.get_data) is installed from the harness (sim/ahrs_sim/boot.py) before `import ahrs`; AHRS_VERIF is reserved and unused',
            'baseline_off_cmd': 'cd /repo && /venv/bin/python -m pytest -ra -q -p no:cacheprovider --timeout=900 --continue-on-collection-errors',
            'source_commits': [],
            'add_only': True,
        },
        'engines': [{'name': 'ahrs_sim', 'path': '/verif/sim/ahrs_sim', 'serves_properties': sorted(CHECKS),
                     'kind_free_text': 'own deterministic simulation kernel in Python: world stub (rigid body + sensor images), sensor bus with fault injector, seeded scheduler over real ahrs filter instances, calendar/RNG/package-data seams, event-log digests, ddmin shrinker, replay files'}],
        'checks': [CHECKS[k] for k in sorted(CHECKS)],
        'not_applicable': [{'property_id': k, 'reason': v} for k, v in sorted(NA.items())],
        'notes': 'Technique family: deterministic simulation with fault injection. See DESIGN.md. Exit 2 of a check = harness error (never a verdict).',
    }
    pending = [p for p in ('C03', 'C05', 'C08', 'C12', 'C13', 'C15', 'C19') if p not in CHECKS]
    for p in pending:
        m['not_applicable'].append({'property_id': p, 'reason': 'applicable (see DESIGN.md) but its check is not built yet at this commit; not claimed until it is'})
    m['not_applicable'].sort(key=lambda e: e['property_id'])
    fixes = os.path.join(HERE, 'fix_commits.txt')
    if os.path.exists(fixes):
        m['hooks']['source_commits'] = [l.split()[0] for l in open(fixes) if l.strip() and not l.startswith('#')]
    return m

if __name__ == '__main__':
    with open(os.path.join(HERE, 'MANIFEST.json'), 'w') as f:
        json.dump(build(), f, indent=1)
    print('MANIFEST.json written:', sorted(CHECKS))
