#!/bin/bash
# Re-evaluates every stored seeded change against the quick check(s) that caught it last time (its own property's check
# when nothing did).  Usage: eval_all_seeded.sh [PART OF]   e.g. "0 2" and "1 2" for two parallel halves.
cd "$(dirname "${BASH_SOURCE[0]}")"
part=${1:-0}; of=${2:-1}; i=0
for d in $(ls -d ../seeded/C*-* | sort -t- -k1,1 -k2,2n); do
  i=$((i+1)); [ $((i % of)) -eq "$part" ] || continue
  id=$(basename "$d"); pid=${id%%-*}; k=${id##*-}
  if [ -n "$ONLY" ] && ! echo " $ONLY " | grep -q " $pid "; then continue; fi      # ONLY="C12 C08": restrict to some properties
  checks=$(/venv/bin/python -c "
import json,sys
m=json.load(open('$d/meta.json')); c=m.get('confirmed',{}).get('caught_by') or []
print(' '.join(c if c else ['$pid']))")
  MUT_OFFSET=0 ./eval_seeded.py "$pid" "$k" $checks 2>&1 | head -1 | cut -c1-220
done
[ "$of" -eq 1 ] && ./summarise_seeded.py
