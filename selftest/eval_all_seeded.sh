#!/bin/bash
# Re-evaluates every stored seeded change against the quick check of its own property (and, when that misses, all checks).
cd "$(dirname "${BASH_SOURCE[0]}")"
for d in ../seeded/C*-*; do
  id=$(basename "$d"); pid=${id%%-*}; k=${id##*-}
  out=$(MUT_OFFSET=0 ./eval_seeded.py "$pid" "$k" 2>&1 | head -1)
  echo "$out" | cut -c1-200
  if echo "$out" | grep -q "caught by \[\]"; then
    MUT_OFFSET=0 ./eval_seeded.py "$pid" "$k" C03 C05 C06 C08 C12 C13 C15 C19 2>&1 | head -1 | cut -c1-200
  fi
done
./summarise_seeded.py
