#!/venv/bin/python
"""Writes /verif/seeded/README.md from the meta.json files (what each seeded change is, what it needs, who catches it)."""
import glob, json, os
VERIF = os.path.dirname(os.path.dirname(os.path.abspath(__file__)))
rows = []
for d in sorted(glob.glob(os.path.join(VERIF, 'seeded', '*-*'))):
    m = json.load(open(os.path.join(d, 'meta.json')))
    c = m.get('confirmed', {})
    first = ''
    for chk, r in c.get('checks', {}).items():
        if r.get('exit') == 1:
            first = r.get('first', '')[:160].replace('|', '/')
            break
    rows.append((os.path.basename(d), ', '.join(m.get('files', [])), m.get('summary', '')[:220].replace('|', '/').replace('\n', ' '),
                 m.get('needs', '')[:220].replace('|', '/').replace('\n', ' '), c.get('tests', ''), c.get('demo_on_original', ''), c.get('demo_on_changed', '')[:40],
                 (', '.join(c.get('caught_by', [])) or 'NOT CAUGHT') + (' -- ' + m['note'] if m.get('note') else ''), first))
with open(os.path.join(VERIF, 'seeded', 'README.md'), 'w') as f:
    f.write('# Seeded changes (written by independent sub-agents that saw only the property text)\n\n'
            'Each directory holds `patch.diff` (against /repo HEAD at the time), `demo.py` (exit 0 on the original tree, non-zero on the changed tree) and `meta.json` '
            '(the sub-agent\'s description plus `confirmed`: what `selftest/eval_seeded.py` measured in a scratch worktree: unedited suite result, demo both ways, and the quick checks run against the changed tree).\n\n'
            '| id | files | change | needs | suite | demo orig | demo changed | caught by | first report |\n|---|---|---|---|---|---|---|---|---|\n')
    for r in rows:
        f.write('| ' + ' | '.join(str(x) for x in r) + ' |\n')
print(len(rows), 'seeded changes;', sum(1 for r in rows if not r[7].startswith('NOT CAUGHT')), 'caught')
