#!/bin/bash
# Runs every registered quick check on /repo's working tree and prints one summary line each.
cd "$(dirname "${BASH_SOURCE[0]}")/.."
rc_all=0
for c in C03 C05 C06 C08 C12 C13 C15 C19; do
  out=$(./check $c --tier quick 2>&1); rc=$?
  echo "$c exit=$rc $(echo "$out" | grep -c '^KNOWN-FINDING') known | $(echo "$out" | tail -1)"
  [ $rc -ne 0 ] && { rc_all=1; echo "$out" | grep -B3 '^VIOLATION\|HARNESS' | cut -c1-300; }
done
exit $rc_all
