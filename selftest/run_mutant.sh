#!/bin/bash
# selftest/run_mutant.sh <patch.diff> [CHECK ...]
# Applies a seeded change to a *scratch worktree* of /repo (never to /repo itself), runs the repository's own
# test suite there (must still pass) and the listed quick checks against it (AHRS_SIM_REPO), prints which
# checks report a VIOLATION, and removes the worktree again.  Exit 0 if at least one check caught the change.
set -u
patch="$(readlink -f "$1")"; shift
checks=("$@"); [ ${#checks[@]} -eq 0 ] && checks=(C03 C05 C06 C08 C12 C13 C15 C19)
HERE="$(cd "$(dirname "${BASH_SOURCE[0]}")/.." && pwd)"
wt="$(mktemp -d /tmp/mutrun.XXXXXX)"; rmdir "$wt"
git -C /repo worktree add -q --detach "$wt" HEAD || exit 2
cleanup() { git -C /repo worktree remove --force "$wt" >/dev/null 2>&1; rm -rf "$wt"; }
trap cleanup EXIT
if ! git -C "$wt" apply "$patch"; then echo "patch does not apply"; exit 2; fi
tests=$(cd "$wt" && timeout 600 /venv/bin/python -m pytest -q -p no:cacheprovider tests 2>&1 | tail -1)
echo "tests: $tests"
caught=()
for c in "${checks[@]}"; do
  out=$(AHRS_SIM_REPO="$wt" AHRS_SIM_EVIDENCE_DIR="$wt/_evidence" "$HERE/check" "$c" --tier quick 2>&1); rc=$?
  v=$(echo "$out" | grep -c '^VIOLATION')
  echo "  $c: exit=$rc violations=$v $(echo "$out" | grep -m1 -B2 '^VIOLATION' | head -1 | cut -c1-200)"
  [ $rc -eq 1 ] && caught+=("$c")
done
echo "caught by: ${caught[*]:-none}"
[ ${#caught[@]} -gt 0 ]
