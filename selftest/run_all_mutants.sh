#!/bin/bash
# Runs every selftest/mutants/*.patch against the quick check of the property named in its file name.
cd "$(dirname "${BASH_SOURCE[0]}")"
for p in mutants/*.patch; do
  name=$(basename "$p" .patch); prop=$(echo "${name%%_*}" | tr a-z A-Z)
  echo "== $name ($prop)"
  ./run_mutant.sh "$p" "$prop" 2>&1 | grep -v "^\[" | tail -3
done
