#!/venv/bin/python
"""Regenerates selftest/mutants/*.patch: small hand-written breaking changes (one per line of MUTANTS),
made on a scratch worktree of /repo HEAD.  Used by selftest/run_mutant.sh to show that the checks are sensitive."""
import os, subprocess, sys, tempfile
HERE = os.path.dirname(os.path.abspath(__file__))
OUT = os.path.join(HERE, 'mutants')
MUTANTS = [
 # name, property, file, old, new
 ('c06_mahony_b0_alias', 'C06', 'ahrs/filters/mahony.py', "        for item in ['q0', 'b']:\n            if self.__getattribute__(item) is not None:\n                if isinstance", "        for item in ['q0', 'b']:\n            if self.__getattribute__(item) is not None:\n                if item == 'b' and isinstance(self.b, np.ndarray):\n                    continue\n                if isinstance"),
 ('c06_ekf_batch_prev_acc', 'C06', 'ahrs/filters/ekf.py', "                Q[t] = self.update(Q[t-1], self.gyr[t], self.acc[t], self.mag[t])", "                Q[t] = self.update(Q[t-1], self.gyr[t], self.acc[t-1], self.mag[t])"),
 ('c06_oleq_unseeded_rng', 'C06', 'ahrs/filters/oleq.py', "        q = np.random.random(4)-0.5", "        q = np.random.default_rng().random(4)-0.5"),
 ('c06_aqua_adaptive_state', 'C06', 'ahrs/filters/aqua.py', "        Q[0] = self.estimate(self.acc[0], self.mag[0]) if self.q0 is None else self.q0.copy()", "        Q[0] = self.estimate(self.acc[0], self.mag[0]) if self.q0 is None else self.q0.copy()\n        self.beta = min(self.beta, self.alpha)"),
 ('c13_ekf_zero_acc_nan', 'C13', 'ahrs/filters/ekf.py', "        if a_norm == 0:\n            return q\n", "        if a_norm < 0:\n            return q\n"),
 ('c13_roleq_guard_and', 'C13', 'ahrs/filters/roleq.py', "        if not a_norm > 0 or not m_norm > 0:", "        if not a_norm > 0 and not m_norm > 0:"),
 ('c05_ekf_enu_aref', 'C05', 'ahrs/filters/ekf.py', "        self.a_ref = np.array([0.0, 0.0, 1.0]) if frame.upper() == 'NED' else np.array([0.0, 0.0, -1.0])", "        self.a_ref = np.array([0.0, 0.0, 1.0])"),
 ('c03_tilt_angles_rotmat', 'C03', 'ahrs/filters/tilt.py', "        Q[:, 3] = sy*cp*cr - cy*sp*sr", "        Q[:, 3] = sy*cp*cr - cy*sp*sp"),
 ('c08_series_factorial', 'C08', 'ahrs/filters/angular.py', "                A += np.linalg.matrix_power(S, i) / factorial(i)", "                A += np.linalg.matrix_power(S, i) / max(i, 1) if i < 4 else np.linalg.matrix_power(S, i) / factorial(i)"),
 ('c08_mahony_dr_bias', 'C08', 'ahrs/filters/mahony.py', "        Omega = np.copy(gyr)\n        a_norm = np.linalg.norm(acc)\n        if a_norm > 0:\n            R = q.to_DCM()\n            v_a = R.T@np.array([0.0, 0.0, 1.0])     # Expected Earth's gravity\n            # ECF", "        Omega = np.copy(gyr) - self.b\n        a_norm = np.linalg.norm(acc)\n        if a_norm > 0:\n            Omega = np.copy(gyr)\n            R = q.to_DCM()\n            v_a = R.T@np.array([0.0, 0.0, 1.0])     # Expected Earth's gravity\n            # ECF"),
 ('c12_slerp_long_arc', 'C12', 'ahrs/common/quaternion.py', "    if qdot < 0.0:\n        q *= -1.0\n        qdot *= -1.0\n    # Interpolate linearly (LERP)", "    if qdot < -0.5:\n        q *= -1.0\n        qdot *= -1.0\n    # Interpolate linearly (LERP)"),
 ('c15_wmm_cache_coeffs', 'C15', 'ahrs/utils/wmm.py', "        file_data = pkgutil.get_data(__name__, cof_file).decode()", "        if getattr(self, '_loaded_cof', None) == cof_file and hasattr(self, 'c'):\n            return\n        self._loaded_cof = cof_file\n        file_data = pkgutil.get_data(__name__, cof_file).decode()"),
 ('c19_q2euler_inplace', 'C19', 'ahrs/common/orientation.py', "    q = q / np.linalg.norm(q)\n    Q = np.array([\n        [q[0], -q[1], -q[2], -q[3]],\n        [q[1],  q[0], -q[3],  q[2]],", "    q *= 1.0 / np.linalg.norm(q)\n    Q = np.array([\n        [q[0], -q[1], -q[2], -q[3]],\n        [q[1],  q[0], -q[3],  q[2]],"),
 ('c05_mahony_ki_sign', 'C05', 'ahrs/filters/mahony.py', "            omega_mes = np.cross(a, v_a) + np.cross(m, v_m) # Cost function (eqs. 32c and 48a)\n            bDot = -self.k_I*omega_mes", "            omega_mes = np.cross(a, v_a) + np.cross(m, v_m) # Cost function (eqs. 32c and 48a)\n            bDot = self.k_I*omega_mes"),
 ('c03_mahony_imu_no_renorm', 'C03', 'ahrs/filters/mahony.py', "            Omega = Omega - self.b + self.k_P*omega_mes  # Gyro correction\n        p = np.array([0.0, *Omega])\n        qDot = 0.5*q.product(p)                     # Rate of change of quaternion (eqs. 45 and 48b)\n        q += qDot*dt                                # Update orientation\n        q /= np.linalg.norm(q)                      # Normalize Quaternion (Versor)\n        return q\n\n    def updateMARG", "            Omega = Omega - self.b + self.k_P*omega_mes  # Gyro correction\n        p = np.array([0.0, *Omega])\n        qDot = 0.5*q.product(p)                     # Rate of change of quaternion (eqs. 45 and 48b)\n        q += qDot*dt                                # Update orientation\n        return q\n\n    def updateMARG"),
 ('c08_closed_small_angle_shortcut', 'C08', 'ahrs/filters/angular.py', "            A = np.cos(w*dt/2.0)*np.eye(4) + np.sin(w*dt/2.0)*Omega/w", "            A = np.cos(w*dt/2.0)*np.eye(4) + np.sin(w*dt/2.0)*Omega/w if w*dt > 1e-3 else np.eye(4) + 0.5*dt*Omega"),
 ('c15_wmm_enu_history', 'C15', 'ahrs/utils/wmm.py', "        if self.frame.upper() == 'ENU':\n            self.X, self.Y, self.Z = ned2enu([self.X, self.Y, self.Z])", "        if self.frame.upper() == 'ENU' and not getattr(self, '_enu_done', False):\n            self._enu_done = True\n            self.X, self.Y, self.Z = ned2enu([self.X, self.Y, self.Z])"),
 ('c19_tilt_normalises_input', 'C19', 'ahrs/filters/tilt.py', ["        acc = np.copy(acc)\n        a_norm = np.linalg.norm(acc)\n        if a_norm == 0:\n            raise ValueError(\"Gravitational acceleration must be non-zero\")\n        ax, ay, az = acc/a_norm"], ["        acc = np.asarray(acc, dtype=float)\n        a_norm = np.linalg.norm(acc)\n        if a_norm == 0:\n            raise ValueError(\"Gravitational acceleration must be non-zero\")\n        acc /= a_norm\n        ax, ay, az = acc"]),
 ('c12_slerp_nan_weights', 'C12', 'ahrs/common/quaternion.py', "                t_array=np.linspace(0, 1, interval[1]-interval[0]+3)[1:-1]", "                t_array=np.arange(1, interval[1]-interval[0]+2)/(interval[1]-interval[0]+3)"),
 ('c13_aqua_no_zero_acc_guard', 'C13', 'ahrs/filters/aqua.py', "        if a_norm == 0:\n            return qInt.to_array()\n        a = acc/a_norm\n        gx, gy, gz = qInt.to_DCM().T @ a                    # Predicted gravity (eq. 44)\n        q_acc = np.array([np.sqrt((gz+1.0)/2.0), -gy/np.sqrt(2.0*(gz+1.0)), gx/np.sqrt(2.0*(gz+1.0)), 0.0])     # Delta Quaternion (eq. 47)\n        if self.adaptive:\n            self.alpha = adaptive_gain(acc)\n        q_acc = slerp_I(q_acc, self.alpha, self.threshold)\n        q_prime = qInt.product(q_acc)                       # (eq. 53)", "        if a_norm < 0:\n            return qInt.to_array()\n        a = acc/a_norm\n        gx, gy, gz = qInt.to_DCM().T @ a                    # Predicted gravity (eq. 44)\n        q_acc = np.array([np.sqrt((gz+1.0)/2.0), -gy/np.sqrt(2.0*(gz+1.0)), gx/np.sqrt(2.0*(gz+1.0)), 0.0])     # Delta Quaternion (eq. 47)\n        if self.adaptive:\n            self.alpha = adaptive_gain(acc)\n        q_acc = slerp_I(q_acc, self.alpha, self.threshold)\n        q_prime = qInt.product(q_acc)                       # (eq. 53)"),
 ('c13_mahony_bias_windup', 'C13', 'ahrs/filters/mahony.py', "            if m_norm == 0:\n                return self.updateIMU(q, gyr, acc, dt)", "            if m_norm == 0:\n                self.b += self.k_P * np.copy(gyr) * dt\n                return self.updateIMU(q, gyr, acc, dt)"),
]

def main():
    os.makedirs(OUT, exist_ok=True)
    wt = tempfile.mkdtemp(prefix='mutgen.', dir='/tmp'); os.rmdir(wt)
    subprocess.run(['git', '-C', '/repo', 'worktree', 'add', '-q', '--detach', wt, 'HEAD'], check=True)
    try:
        for name, prop, rel, old, new in MUTANTS:
            p = os.path.join(wt, rel)
            raw = open(p, 'rb').read()
            crlf = b'\r\n' in raw
            s = raw.decode()
            olds, news = (old, new) if isinstance(old, list) else ([old], [new])
            bad = False
            for o_, n_ in zip(olds, news):
                o, n = (o_.replace('\n', '\r\n'), n_.replace('\n', '\r\n')) if crlf else (o_, n_)
                if s.count(o) != 1:
                    print('SKIP', name, 'anchor count', s.count(o)); bad = True; break
                s = s.replace(o, n)
            if bad:
                continue
            open(p, 'wb').write(s.encode())
            d = subprocess.run(['git', '-C', wt, 'diff', '--', rel], capture_output=True).stdout
            open(os.path.join(OUT, f'{name}.patch'), 'wb').write(d)
            subprocess.run(['git', '-C', wt, 'checkout', '--', '.'], check=True)
            print('ok', name)
    finally:
        subprocess.run(['git', '-C', '/repo', 'worktree', 'remove', '--force', wt])

if __name__ == '__main__':
    main()
