#!/venv/bin/python
"""Developer tool: confirm a seeded change written by a sub-agent and run the checks against it.

    eval_seeded.py <ID> <K> [CHECK ...]      reads /tmp/mut/<ID>/_out/{patchK.diff,demoK.py,metaK.json}
Steps (all in scratch worktrees of /repo HEAD, removed afterwards; /repo itself is never touched):
  1. demo on the ORIGINAL tree must exit 0;  2. patch applies, unedited test suite must give 250 passed;
  3. demo on the CHANGED tree must exit non-zero;  4. the listed quick checks (default: the property's own) are run
  against the changed tree (AHRS_SIM_REPO);  5. everything is stored in /verif/seeded/<ID>-<K>/ (patch.diff, demo.py, meta.json).
"""
import json, os, shutil, subprocess, sys, tempfile
VERIF = os.path.dirname(os.path.dirname(os.path.abspath(__file__)))
pid, k = sys.argv[1], sys.argv[2]
checks = sys.argv[3:] or [pid]
root = os.environ.get('MUT_SRC', '/tmp/mut')                 # where the sub-agent worked (first import only)
src = f'{root}/{pid}/_out'
num = int(k) + int(os.environ.get('MUT_OFFSET', '0'))       # stored as <ID>-<num>
k_src = k
dst = os.path.join(VERIF, 'seeded', f'{pid}-{num}')
os.makedirs(dst, exist_ok=True)
if os.path.exists(f'{src}/patch{k_src}.diff') and not os.path.exists(f'{dst}/patch.diff'):          # first import from the sub-agent's scratch worktree
    shutil.copy(f'{src}/patch{k_src}.diff', f'{dst}/patch.diff')
    shutil.copy(f'{src}/demo{k_src}.py', f'{dst}/demo.py')
    meta = json.load(open(f'{src}/meta{k_src}.json'))
    meta['origin_dir'] = f'{root}/{pid}'
else:                                               # re-evaluation of a stored change
    meta = json.load(open(f'{dst}/meta.json'))

def sh(cmd, cwd=None, env=None, timeout=1800):
    r = subprocess.run(cmd, shell=True, cwd=cwd, env=env, capture_output=True, text=True, timeout=timeout)
    return r.returncode, (r.stdout + r.stderr)

wt = tempfile.mkdtemp(prefix='seedrun.', dir='/tmp'); os.rmdir(wt)
subprocess.run(['git', '-C', '/repo', 'worktree', 'add', '-q', '--detach', wt, 'HEAD'], check=True)
ran = {}
try:
    env = dict(os.environ, PYTHONPATH=wt, PYTHONDONTWRITEBYTECODE='1')
    demo = f'{dst}/demo.py'
    # demos were written against /tmp/mut/<ID>: make the path neutral
    txt = open(demo).read().replace(meta.get('origin_dir', f'/tmp/mut/{pid}'), wt).replace(f'/tmp/mut2/{pid}', wt).replace(f'/tmp/mut/{pid}', wt)
    open(f'{wt}/_demo.py', 'w').write(txt)
    rc0, out0 = sh(f'/venv/bin/python _demo.py', cwd=wt, env=env)
    ran['demo_on_original'] = f'exit {rc0}'
    rc, out = sh(f'git apply {dst}/patch.diff', cwd=wt)
    ran['patch_applies'] = rc == 0
    rct, outt = sh('/venv/bin/python -m pytest -q -p no:cacheprovider tests 2>&1 | tail -1', cwd=wt)
    ran['tests'] = outt.strip()
    rc1, out1 = sh(f'/venv/bin/python _demo.py', cwd=wt, env=env)
    ran['demo_on_changed'] = f'exit {rc1}: ' + out1.strip().splitlines()[-1][:200] if out1.strip() else f'exit {rc1}'
    os.remove(f'{wt}/_demo.py')
    caught = {}
    for c in checks:
        env2 = dict(os.environ, AHRS_SIM_REPO=wt, AHRS_SIM_EVIDENCE_DIR=f'{wt}/_evidence')
        rcc, outc = sh(f'{VERIF}/check {c} --tier quick', env=env2)
        lines = [l for l in outc.splitlines() if l.startswith(f'[{c}] ') and ': ' in l and 'tier=' not in l and 'runs,' not in l and 'minimised' not in l and 'unlisted' not in l and not l.startswith(f'[{c}]   (')]
        caught[c] = {'exit': rcc, 'violations': outc.count('\nVIOLATION'), 'first': (lines[0][:300] if lines else '')}
    ran['checks'] = caught
    ran['caught_by'] = [c for c, r in caught.items() if r['exit'] == 1]
finally:
    subprocess.run(['git', '-C', '/repo', 'worktree', 'remove', '--force', wt])
    shutil.rmtree(wt, ignore_errors=True)
meta['confirmed'] = ran
meta['valid'] = bool(ran.get('patch_applies') and ran['demo_on_original'] == 'exit 0' and '250 passed' in ran['tests'] and not ran['demo_on_changed'].startswith('exit 0'))
json.dump(meta, open(f'{dst}/meta.json', 'w'), indent=1)
print(pid, num, 'valid' if meta['valid'] else 'INVALID', ran['demo_on_original'], ran['tests'], '|', ran['demo_on_changed'][:80], '| caught by', ran['caught_by'])
for c, r in ran.get('checks', {}).items():
    print('   ', c, r['exit'], r['first'][:220])
