#!/venv/bin/python
"""Developer tool (never run by a check): pin repro scenarios for a list of known-finding specs.

    pin_batch.py <PID> <specs.json> [--tier quick] [--seeds N]
specs.json: [{"id":..., "component":..., "symptom":..., "trigger": <fnmatch pattern or any>, "what":...}, ...]
Scans seeds in parallel, takes the first scenario whose violation matches each spec, shrinks it (the shrunk
scenario must still match the same spec) and writes the entries (status open) into known_findings.json.
"""
import argparse, concurrent.futures as cf, fnmatch, importlib, json, multiprocessing, os, sys
HERE = os.path.dirname(os.path.abspath(__file__))
sys.path.insert(0, HERE)
from ahrs_sim import boot
boot.boot()
from ahrs_sim import runner, shrink as SH

ap = argparse.ArgumentParser()
ap.add_argument('pid'); ap.add_argument('specs'); ap.add_argument('--tier', default='quick'); ap.add_argument('--seeds', type=int, default=4000)
ap.add_argument('--start', type=int, default=0)
a = ap.parse_args()
chk = importlib.import_module(f'ahrs_sim.checks.{a.pid.lower()}').CHECK
specs = json.load(open(a.specs))

def matches(spec, v):
    return v['component'] == spec['component'] and v['symptom'] == spec['symptom'] and (spec['trigger'] == 'any' or fnmatch.fnmatchcase(str(v.get('trigger')), spec['trigger']))

def scan(seed):
    scn = chk.gen(seed, a.tier)
    r = chk.run(scn)
    return seed, [(i, v) for v in r['violations'] for i, sp in enumerate(specs) if matches(sp, v)]

def shrink_for(args):
    i, seed = args
    sp = specs[i]
    scn = chk.gen(seed, a.tier)
    def still(c):
        return any(matches(sp, v) for v in chk.run(c)['violations'])
    spec = chk.shrink_spec(scn) if hasattr(chk, 'shrink_spec') else {}
    best, n = SH.shrink(scn, still, lists=spec.get('lists', ()), ints=spec.get('ints', ()), resets=spec.get('resets', ()),
                        normalise=spec.get('normalise'), budget=SH.Budget(max_runs=150, max_seconds=120))
    v = [v for v in chk.run(best)['violations'] if matches(sp, v)][0]
    return i, best, v, n

found = {}
ctx = multiprocessing.get_context('fork')
with cf.ProcessPoolExecutor(16, mp_context=ctx) as pool:
    for seed, hits in pool.map(scan, range(a.start, a.start + a.seeds), chunksize=20):
        for i, v in hits:
            found.setdefault(i, seed)
    print('found repro seeds for', len(found), 'of', len(specs), 'specs; missing:', [specs[i]['id'] for i in range(len(specs)) if i not in found])
    results = list(pool.map(shrink_for, sorted(found.items())))
data = json.load(open(runner.KNOWN))
for i, best, v, n in results:
    sp = specs[i]
    data['findings'] = [e for e in data['findings'] if e['id'] != sp['id']]
    data['findings'].append({'id': sp['id'], 'property': a.pid, 'component': sp['component'], 'symptom': sp['symptom'], 'trigger': sp['trigger'],
                             'status': 'open', 'what': sp['what'], 'example': v['detail'][:300], 'repro': best})
    print('pinned', sp['id'], '|', v['trigger'], '|', v['detail'][:140])
data['findings'].sort(key=lambda e: e['id'])
json.dump(data, open(runner.KNOWN, 'w'), indent=1)
