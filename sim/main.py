#!/venv/bin/python
"""Entry point: ``main.py <PROPERTY_ID> [--tier quick|thorough] [--replay FILE] ...``.

Installs the seams (ahrs_sim.boot) *before* importing ahrs from /repo's working
tree, then hands over to the check module.  Run through /verif/check, which
fixes PYTHONHASHSEED and the BLAS thread counts.
"""
import importlib
import os
import sys

HERE = os.path.dirname(os.path.abspath(__file__))
if HERE not in sys.path:
    sys.path.insert(0, HERE)


def main(argv):
    if len(argv) < 1:
        print('usage: main.py <C03|C05|C06|C08|C12|C13|C15|C19|selftest> [options]', file=sys.stderr)
        return 2
    name = argv[0]
    from ahrs_sim import boot
    boot.boot()
    if name == 'selftest':
        from ahrs_sim import selftest
        return selftest.main(argv[1:])
    mod = importlib.import_module(f'ahrs_sim.checks.{name.lower()}')
    from ahrs_sim import runner
    return runner.cli(mod.CHECK, argv[1:])


if __name__ == '__main__':
    try:
        rc = main(sys.argv[1:])
    except SystemExit:
        raise
    except BaseException:       # noqa: BLE001 - never let a harness crash look like a pass or a violation
        import traceback
        traceback.print_exc()
        rc = 2
    sys.stdout.flush()
    sys.exit(rc)
