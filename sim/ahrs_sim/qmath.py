"""Small, independent quaternion helpers used by the world stub and the oracles.

Hamilton convention, scalar first.  ``R(q)`` maps body coordinates to global
coordinates: ``v_global = R(q) @ v_body``.  Nothing in here imports ``ahrs``.
"""
import math
import numpy as np


def qmul(p, q):
    pw, px, py, pz = p
    qw, qx, qy, qz = q
    return np.array([pw*qw - px*qx - py*qy - pz*qz,
                     pw*qx + px*qw + py*qz - pz*qy,
                     pw*qy - px*qz + py*qw + pz*qx,
                     pw*qz + px*qy - py*qx + pz*qw])


def qconj(q):
    return np.array([q[0], -q[1], -q[2], -q[3]])


def qnorm(q):
    q = np.asarray(q, dtype=float)
    return q / math.sqrt(float(q @ q))


def qexp(v):
    """Unit quaternion of the rotation vector ``v`` (axis*angle)."""
    v = np.asarray(v, dtype=float)
    ang = math.sqrt(float(v @ v))
    if ang < 1e-300:
        return np.array([1.0, 0.0, 0.0, 0.0])
    s = math.sin(ang / 2.0) / ang
    return np.array([math.cos(ang / 2.0), s*v[0], s*v[1], s*v[2]])


def q2R(q):
    w, x, y, z = q
    return np.array([
        [1.0 - 2.0*(y*y + z*z), 2.0*(x*y - w*z), 2.0*(x*z + w*y)],
        [2.0*(x*y + w*z), 1.0 - 2.0*(x*x + z*z), 2.0*(y*z - w*x)],
        [2.0*(x*z - w*y), 2.0*(w*x + y*z), 1.0 - 2.0*(x*x + y*y)]])


def axang(axis, angle):
    axis = np.asarray(axis, dtype=float)
    axis = axis / math.sqrt(float(axis @ axis))
    return qexp(axis * angle)


def rot_angle(p, q):
    """Rotation angle (rad, in [0, pi]) between the attitudes p and q."""
    d = abs(float(np.dot(p, q)))
    n = math.sqrt(float(np.dot(p, p)) * float(np.dot(q, q)))
    if not n > 0 or not math.isfinite(d):
        return float('nan')
    d = min(1.0, d / n)
    # accurate for small angles: use the chord
    if d > 0.9:
        pp = np.asarray(p) / math.sqrt(float(np.dot(p, p)))
        qq = np.asarray(q) / math.sqrt(float(np.dot(q, q)))
        if float(np.dot(pp, qq)) < 0:
            qq = -qq
        c = math.sqrt(float(np.dot(pp - qq, pp - qq)))
        return 4.0 * math.asin(min(1.0, c / 2.0))
    return 2.0 * math.acos(d)


def vec_angle(u, v):
    nu = math.sqrt(float(np.dot(u, u)))
    nv = math.sqrt(float(np.dot(v, v)))
    if not (nu > 0 and nv > 0):
        return float('nan')
    c = np.cross(u, v)
    return math.atan2(math.sqrt(float(c @ c)), float(np.dot(u, v)))


def slerp_ref(p, q, t):
    """Reference shortest-arc constant-speed SLERP between unit p and q."""
    p = np.asarray(p, dtype=float)
    q = np.asarray(q, dtype=float)
    d = float(p @ q)
    if d < 0:
        q, d = -q, -d
    d = min(1.0, d)
    th = math.acos(d)
    # robust angle for nearly equal endpoints
    c = math.sqrt(float((p - q) @ (p - q)))
    if d > 0.9:
        th = 2.0 * math.asin(min(1.0, c / 2.0))
    if th < 1e-12:
        r = (1 - t) * p + t * q
        return r / math.sqrt(float(r @ r))
    s = math.sin(th)
    return (math.sin((1 - t) * th) / s) * p + (math.sin(t * th) / s) * q


def fhex(x):
    return float(x).hex()


def unhex(s):
    return float.fromhex(s)
