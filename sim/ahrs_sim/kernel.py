"""Simulation kernel: event log, seeded scheduler, sensor bus, consumer tasks.

``Pipeline(scn).run()`` executes one scenario: the world publishes a history
on the bus, the consumer tasks (real ahrs classes) are stepped one public call
at a time in an order chosen by a PRNG derived from the scenario, and the
monitors look at every shared buffer after every step.  Everything that
happens goes to the event log, whose SHA-256 is the run digest.
"""
import hashlib
import random
import numpy as np
from . import boot, world as W, consumers as C


class EventLog:
    def __init__(self, keep=False):
        self._h = hashlib.sha256()
        self.count = 0
        self.keep = keep
        self.events = []

    def add(self, *items):
        self.count += 1
        for it in items:
            if isinstance(it, np.ndarray):
                b = np.ascontiguousarray(it).tobytes()
            elif isinstance(it, bytes):
                b = it
            else:
                b = repr(it).encode()
            self._h.update(len(b).to_bytes(4, 'little'))
            self._h.update(b)
        if self.keep:
            self.events.append(tuple(x.tolist() if isinstance(x, np.ndarray) else x for x in items))

    def digest(self):
        return self._h.hexdigest()


def out_to_array(x):
    """Normalise what an update/estimate call returned to a plain ndarray copy."""
    if x is None:
        return None
    return np.array(x, copy=True)


class Refusal:
    """A streaming step raised ValueError: the application keeps its previous attitude."""
    etype = 'ValueError'

    def __init__(self, msg):
        self.msg = msg


class Crash:
    def __init__(self, exc):
        self.etype = type(exc).__name__
        self.msg = str(exc)[:200]


def int_counts(arr):
    """A direction sensor logged as raw integer counts (16-bit style full scale): int64 array, or None when some row
    would round to an all-zero sample."""
    top = float(np.max(np.abs(arr)))
    if not (top > 0 and np.isfinite(top)):
        return None
    out = np.round(np.asarray(arr, dtype=float) * (30000.0 / top)).astype(np.int64)
    if not np.all(np.max(np.abs(out), axis=1) >= 300):
        return None         # some row would keep less than 1 % resolution (a huge glitch elsewhere sets the full scale): its
    return out              # direction would be rounded away, which is a defect of this conversion, not of the library


def typed_history(spec, gyr, acc, mag):
    """The arrays as the application stores them: float64, or integer-typed ('int_am': accelerometer and magnetometer
    as raw counts; 'int_all': the gyroscope too, rounded to whole rad/s -- physically coarse, but a legitimate int64
    recording that every class must treat as it treats the same numbers in float64)."""
    if spec.get('int_am') or spec.get('int_all'):
        ia, im = int_counts(acc), int_counts(mag)
        acc, mag = (acc if ia is None else ia), (mag if im is None else im)
    if spec.get('int_all'):
        gyr = np.round(np.asarray(gyr, dtype=float)).astype(np.int64)
    return gyr, acc, mag


class StreamTask:
    """A consumer fed one sample per call.  ``stride`` s > 1 models a subscriber running at a lower rate: it
    takes every s-th tick of the bus and its sampling period is s times the bus period."""

    def __init__(self, idx, spec, hist, dip, shared):
        self.idx = idx
        self.spec = spec
        self.kind = C.KINDS[spec['kind']]
        self.p = dict(spec.get('params', {}))
        self.p.update(shared)
        self.hist = hist
        self.dip = dip
        a_ref, m_ref = self.kind.refs(self.p, dip)
        self.key = W.chan_key(a_ref, m_ref)
        self.stride = max(1, int(spec.get('stride', 1)))
        self.n_own = len(range(0, hist.n, self.stride))
        self.dt = hist.dt * self.stride
        self.first = 1 if self.kind.recursive else 0   # single-frame estimators also see tick 0
        self.pos = self.first            # next own sample to consume (bus tick = pos * stride)
        self.out = [None] * self.n_own   # per own sample: ndarray | Refusal | Crash | None
        self.raw = [None] * self.n_own   # per own sample: the returned object itself
        self.q = None
        self.inst = None
        self.dead = False
        self.rng_before = {}             # own sample index -> library RNG state (RNG consumers only)
        self._bufs = None
        self._ints = None
        self.q_mutations = []            # own samples at which the a-priori quaternion argument was modified in place
        self.dt_eff = C.effective_dt(self.p, self.dt)

    def start(self, q_init):
        self.inst = self.kind.make(self.p, self.dt, self.dip)
        self.q = None if q_init is None else np.array(q_init, dtype=float)
        self.out[0] = None if self.q is None else self.q.copy()

    def runnable(self, T):
        return (not self.dead) and self.pos < self.n_own and self.pos * self.stride <= T

    def done(self):
        return self.dead or self.pos >= self.n_own

    def bus_tick(self):
        return self.pos * self.stride

    def samples(self, k):
        h = self.hist
        g = h.gyr[k] if 'g' in self.kind.sensors else None
        a = h.acc[self.key][k] if 'a' in self.kind.sensors else None
        m = h.mag[self.key][k] if 'm' in self.kind.sensors else None
        if self.spec.get('int_am') or self.spec.get('int_all'):
            # integer-typed recording (see typed_history)
            if self._ints is None:
                self._ints = typed_history(self.spec, h.gyr, h.acc[self.key], h.mag[self.key])
            g = self._ints[0][k] if g is not None else None
            a = self._ints[1][k] if a is not None else None
            m = self._ints[2][k] if m is not None else None
        if self.spec.get('reuse_buffers') and not (self.spec.get('int_am') or self.spec.get('int_all')):
            # an application that reads every sample into the same three preallocated buffers (driver style):
            # the objects handed to the library are identical from call to call, their contents are not
            if self._bufs is None:
                self._bufs = [np.zeros(3), np.zeros(3), np.zeros(3)]
            out = []
            for buf, src in zip(self._bufs, (g, a, m)):
                if src is None:
                    out.append(None)
                else:
                    buf[:] = src
                    out.append(buf)
            return tuple(out)
        return g, a, m

    def step(self, log):
        j = self.pos
        k = j * self.stride
        g, a, m = self.samples(k)
        if self.kind.uses_library_rng:
            self.rng_before[j] = np.random.get_state()
        q_in = self.q
        q_bytes = q_in.tobytes() if isinstance(q_in, np.ndarray) else None
        try:
            r = self.kind.step(self.inst, self.p, self.q, g, a, m, C.call_dt(self.p, self.dt))
            if q_bytes is not None and q_in.tobytes() != q_bytes:
                # the a-priori quaternion handed in is the caller's array (its previous attitude): it was overwritten
                self.q_mutations.append(j)
                log.add('q-mutation', self.idx, j)
            self.out[j] = out_to_array(r)
            self.raw[j] = r             # the object itself: an application may keep what it is handed
            if r is not None and self.kind.recursive:
                # the application feeds what it was handed straight back (no defensive copy), as in the docs' loops
                self.q = r if isinstance(r, np.ndarray) else self.out[j]
            log.add('step', self.idx, j, self.out[j] if self.out[j] is not None else 'None')
        except np.linalg.LinAlgError as e:
            self.out[j] = Crash(e)
            if self.kind.recursive:
                self.dead = True
            log.add('crash', self.idx, j, type(e).__name__)
        except ValueError as e:
            self.out[j] = Refusal(str(e)[:200])
            log.add('refuse', self.idx, j, type(e).__name__)
        except Exception as e:          # noqa: BLE001 - a crash of the consumer is data
            self.out[j] = Crash(e)
            if self.kind.recursive:
                self.dead = True
            log.add('crash', self.idx, j, type(e).__name__)
        self.pos += 1


class BatchTask:
    """One-shot task: runs the class's batch constructor on the complete history
    (on the *shared* bus arrays) at a moment chosen by the scheduler."""

    def __init__(self, idx, spec, hist, dip, shared):
        self.idx = idx
        self.spec = spec
        self.kind = C.KINDS[spec['kind']]
        self.p = dict(spec.get('params', {}))
        self.p.update(shared)
        self.hist = hist
        self.dip = dip
        a_ref, m_ref = self.kind.refs(self.p, dip)
        self.key = W.chan_key(a_ref, m_ref)
        self.result = None
        self.obj = None
        self.finished = False
        self.rng_before = None

    def start(self, q_init):
        pass

    def runnable(self, T):
        return (not self.finished) and T >= self.hist.n - 1

    def done(self):
        return self.finished

    def step(self, log):
        h = self.hist
        if self.kind.uses_library_rng:
            self.rng_before = np.random.get_state()
        gyr, acc, mag = typed_history(self.spec, h.gyr, h.acc[self.key], h.mag[self.key])
        self.result, self.obj = run_batch(self.kind, self.p, h.dt, self.dip, gyr, acc, mag)
        log.add('batch', self.idx, self.result if isinstance(self.result, np.ndarray) else repr(type(self.result)))
        self.finished = True


def run_batch(kind, p, dt, dip, gyr, acc, mag):
    """Call the batch constructor; returns (ndarray | Refusal | Crash, object)."""
    s = kind.sensors
    try:
        o, Q = kind.batch(p, dt, dip, gyr if 'g' in s else None, acc if 'a' in s else None, mag if 'm' in s else None)
        return np.array(Q, copy=True), o
    except np.linalg.LinAlgError as e:
        return Crash(e), None
    except ValueError as e:
        return Refusal(str(e)[:200]), None
    except Exception as e:              # noqa: BLE001
        return Crash(e), None


class BusMonitor:
    """Digest of every live bus buffer; reports which rows changed and who did it."""

    def __init__(self, hist, extra=None):
        self.arrays = {'gyr': hist.gyr}
        for k, v in hist.acc.items():
            self.arrays[('acc', k)] = v
        for k, v in hist.mag.items():
            self.arrays[('mag', k)] = v
        for k, v in (extra or {}).items():
            self.arrays[k] = v
        self.pristine = {k: v.copy() for k, v in self.arrays.items()}
        self.mutations = []

    def check(self, who, log):
        for k, v in self.arrays.items():
            p = self.pristine[k]
            if v.tobytes() != p.tobytes():
                with np.errstate(all='ignore'):
                    rows = np.unique(np.nonzero(~((v == p) | (np.isnan(v) & np.isnan(p))))[0]).tolist() if v.ndim else [0]
                name = k if isinstance(k, str) else k[0]
                self.mutations.append({'by': who, 'array': name, 'rows': rows[:8]})
                log.add('mutation', who, name, rows[:8])
                self.pristine[k] = v.copy()


class Pipeline:
    def __init__(self, scn, keep_events=False):
        self.scn = scn
        self.log = EventLog(keep=keep_events)
        self.tasks = []
        self.choices = []
        self.hist = None
        self.monitor = None
        self.shared_arrays = {}

    def channels(self):
        dip = self.scn['world']['dip']
        ch = []
        for c in self.scn['consumers']:
            k = C.KINDS[c['kind']]
            ch.append(k.refs(c.get('params', {}), dip))
        return ch

    def build(self):
        scn = self.scn
        self.hist = W.build(scn['world'], self.channels())
        dip = scn['world']['dip']
        groups = {}
        for i, c in enumerate(scn['consumers']):
            shared = {}
            gid = c.get('share')
            if gid is not None:
                key = (c['kind'], gid)
                if key not in groups:
                    groups[key] = {}
                    for name in ('b0', 'P', 'weights'):
                        v = c.get('params', {}).get(name)
                        if v is not None:
                            groups[key]['_shared_' + name] = np.array(v, dtype=float)
                shared = groups[key]
            cls = BatchTask if (c.get('mode') == 'batch' or not C.KINDS[c['kind']].streaming) else StreamTask
            cfg = C.make_config(c.get('params', {}))
            cfg.update(shared)          # arrays shared with other instances win over the task's own
            task = cls(i, c, self.hist, dip, cfg)
            task.cfg = cfg
            self.tasks.append(task)
        extra = {}
        for t in self.tasks:
            for name, arr in t.cfg.items():
                if not any(arr is a for a in extra.values()):
                    extra[f'param:{t.kind.name}:task{t.idx}:{name}'] = arr
        self.shared_arrays = extra
        self.monitor = BusMonitor(self.hist, extra)
        return self

    def run(self, q_inits, sched_seed, lag_bound=4, starve=None, after_step=None):
        """q_inits: per-task initial attitude (None for single-frame / batch tasks)."""
        rnd = random.Random(sched_seed)
        n = self.hist.n
        T = 0
        log = self.log
        for t, q0 in zip(self.tasks, q_inits):
            try:
                t.start(q0)
            except Exception as e:      # noqa: BLE001
                t.dead = True
                t.finished = True
                t.ctor_error = e
                log.add('ctor-crash', t.idx, type(e).__name__)
        guard = 0
        while True:
            actions = []
            live_stream = [t for t in self.tasks if isinstance(t, StreamTask) and not t.done()]
            min_pos = min((max(t.pos, 1) * t.stride for t in live_stream), default=n)
            if T < n - 1 and (T + 1 - min_pos) < lag_bound:
                actions.append(('publish', None))
            for t in self.tasks:
                if t.runnable(T):
                    actions.append(('step', t))
            if not actions:
                if T < n - 1:
                    actions.append(('publish', None))   # only dead tasks hold the bus back
                else:
                    break
            if starve is not None and len(actions) > 1 and rnd.random() < 0.8:
                pref = [a for a in actions if not (a[0] == 'step' and a[1].idx == starve)]
                actions = pref or actions
            ci = rnd.randrange(len(actions))
            act, t = actions[ci]
            if act == 'publish':
                T += 1
                self.choices.append(-1)
                log.add('publish', T)
            else:
                self.choices.append(t.idx)
                t.step(log)
                self.monitor.check(t.idx, log)
                if after_step is not None:
                    after_step(self, t)
            guard += 1
            if guard > 50 * n * (len(self.tasks) + 1) + 1000:
                raise RuntimeError('scheduler did not terminate')
        return self

    def interleaving_signature(self):
        h = hashlib.sha256(bytes((c + 1) & 0xFF for c in self.choices)).hexdigest()[:12]
        return h
