"""Consumer tasks: thin wrappers around the *real* classes exported by ahrs.filters.

A consumer spec is a JSON dict ``{"kind": <name>, "params": {...}}``.  The kind
table records, per filter x architecture:

* which sensors it subscribes to and which reference pair (channel) the world
  must image for it (the convention table of DESIGN.md section 1.2);
* how the class is built without data (streaming), how one sample is fed, and
  how the batch constructor is called on a recorded history;
* whether its estimate is the truth or the conjugate of the truth.

No numerical logic of the library is re-implemented here.
"""
import math
import numpy as np
from . import world as W

Z_UP = [0.0, 0.0, 1.0]
Z_DN = [0.0, 0.0, -1.0]


def _f():
    import ahrs.filters as F
    return F


def _dt_kwargs(p, dt):
    """Constructor route for the sampling period: 'Dt', 'frequency', or 'call' (a data-less instance keeps the
    class default and is told the period on every call; the batch constructor, which has no per-call route, gets Dt)."""
    if p.get('dt_route', 'Dt') == 'frequency':
        return {'frequency': 1.0 / dt}
    if p.get('dt_route') in ('call', 'attr') and p.get('_dataless'):
        return {}           # 'attr': the data-less instance is created with the class default and its documented attribute
    return {'Dt': dt}       # Dt is assigned afterwards (see _attr_route); calls then pass no dt


def call_dt(p, dt):
    """What a streaming step passes as ``dt``: see _kw_dt."""
    if p.get('dt_route') == 'call':
        return float(dt)
    return bool(p.get('dt_call', False))


CONFIG_ARRAYS = ('b0', 'P', 'weights', 'q0')


def make_config(params):
    """Caller-owned configuration arrays of one application task (created once, reused for every object
    the application builds from this configuration)."""
    return {'_shared_' + k: np.array(params[k], dtype=float) for k in CONFIG_ARRAYS
            if params.get(k) is not None and not (k == 'q0' and params.get('q0_as_list'))}


def effective_dt(p, dt):
    if p.get('dt_route', 'Dt') == 'frequency':
        f = 1.0 / dt
        return 1.0 / f
    return dt


class Kind:
    name = ''
    sensors = 'gam'       # subset of g,a,m
    recursive = True
    streaming = True      # has a public per-sample method
    conj = False          # estimate = conj(truth)
    tilt_only = False     # heading unobservable
    uses_library_rng = False
    q0_route = None       # how an initial orientation may be given: 'q0' | 'first' | 'w0' | None

    def refs(self, p, dip):
        return Z_UP, W.mref_from_dip('x', dip)

    def ctor_kwargs(self, p, dt, dip):
        return {}

    def make(self, p, dt, dip):
        raise NotImplementedError

    def batch(self, p, dt, dip, gyr, acc, mag):
        """Run the class's batch constructor; return (object, outputs ndarray)."""
        raise NotImplementedError

    def step(self, inst, p, q, g, a, m, dt_call):
        raise NotImplementedError

    def state_arrays(self, inst):
        """Named ndarray attributes carried between steps (for isolation digests)."""
        return {}


def _arr(p, name):
    """A configuration array: the caller-owned object when the application keeps one ('_shared_<name>',
    reused for every object it builds from this configuration), else a fresh array from the JSON value."""
    if '_shared_' + name in p:
        return p['_shared_' + name]
    return np.array(p[name], dtype=float)


def _q0(p):
    if p.get('q0') is None:
        return None
    if p.get('q0_as_list'):
        return list(p['q0'])
    return _arr(p, 'q0')


def _kw_dt(dt_call, dt):
    """dt_call: False/None -> rely on the instance's Dt; True -> pass the instance's Dt explicitly;
    a float -> pass that period on every call (instance built with the class default)."""
    if dt_call is None or dt_call is False:
        return {}
    if dt_call is True:
        return {'dt': dt}
    return {'dt': float(dt_call)}


class MadgwickIMU(Kind):
    name, sensors, tilt_only, q0_route = 'madgwick_imu', 'ga', True, 'q0'

    def ctor_kwargs(self, p, dt, dip):
        kw = dict(_dt_kwargs(p, dt))
        if 'gain' in p:
            kw['gain'] = p['gain']
        if _q0(p) is not None:
            kw['q0'] = _q0(p)
        return kw

    def make(self, p, dt, dip):
        return _f().Madgwick(**self.ctor_kwargs(dict(p, _dataless=True), dt, dip))

    def batch(self, p, dt, dip, gyr, acc, mag):
        o = _f().Madgwick(gyr=gyr, acc=acc, **self.ctor_kwargs(p, dt, dip))
        return o, o.Q

    def step(self, inst, p, q, g, a, m, dt_call):
        return inst.updateIMU(q, g, a, **_kw_dt(dt_call, inst.Dt))


class MadgwickMARG(MadgwickIMU):
    name, sensors, tilt_only, q0_route = 'madgwick_marg', 'gam', False, 'first'

    def batch(self, p, dt, dip, gyr, acc, mag):
        o = _f().Madgwick(gyr=gyr, acc=acc, mag=mag, **self.ctor_kwargs(p, dt, dip))
        return o, o.Q

    def step(self, inst, p, q, g, a, m, dt_call):
        return inst.updateMARG(q, g, a, m, **_kw_dt(dt_call, inst.Dt))


class MahonyIMU(Kind):
    name, sensors, tilt_only, q0_route = 'mahony_imu', 'ga', True, 'q0'

    def ctor_kwargs(self, p, dt, dip):
        kw = dict(_dt_kwargs(p, dt))
        for k in ('k_P', 'k_I'):
            if k in p:
                kw[k] = p[k]
        if _q0(p) is not None:
            kw['q0'] = _q0(p)
        if p.get('b0') is not None:
            kw['b0'] = _arr(p, 'b0')
        return kw

    def make(self, p, dt, dip):
        return _f().Mahony(**self.ctor_kwargs(dict(p, _dataless=True), dt, dip))

    def batch(self, p, dt, dip, gyr, acc, mag):
        o = _f().Mahony(gyr=gyr, acc=acc, **self.ctor_kwargs(p, dt, dip))
        return o, o.Q

    def step(self, inst, p, q, g, a, m, dt_call):
        return inst.updateIMU(q, g, a, **_kw_dt(dt_call, inst.Dt))

    def state_arrays(self, inst):
        return {'b': inst.b}


class MahonyMARG(MahonyIMU):
    name, sensors, tilt_only = 'mahony_marg', 'gam', False

    def refs(self, p, dip):
        return Z_UP, W.mref_from_dip('y', dip)

    def batch(self, p, dt, dip, gyr, acc, mag):
        o = _f().Mahony(gyr=gyr, acc=acc, mag=mag, **self.ctor_kwargs(p, dt, dip))
        return o, o.Q

    def step(self, inst, p, q, g, a, m, dt_call):
        return inst.updateMARG(q, g, a, m, **_kw_dt(dt_call, inst.Dt))


class EKFIMU(Kind):
    name, sensors, tilt_only, q0_route = 'ekf_imu', 'ga', True, 'q0'

    def _frame(self, p):
        return p.get('frame', 'NED')

    def refs(self, p, dip):
        if self._frame(p) == 'NED':
            return Z_UP, W.mref_from_dip('x', dip)
        return Z_DN, W.mref_from_dip('y', dip)

    def ctor_kwargs(self, p, dt, dip):
        kw = dict(_dt_kwargs(p, dt))
        kw['frame'] = self._frame(p)
        mr = p.get('magnetic_ref', 'dip')
        if mr == 'dip':
            kw['magnetic_ref'] = float(dip)
        elif mr == 'vector':
            kw['magnetic_ref'] = np.array(self.refs(p, dip)[1], dtype=float) * float(p.get('mref_scale', 1.0))   # e.g. the local field in uT
        # mr == 'default' -> WMM for "today" (calendar-dependent; C06 freezes the calendar)
        if 'noises' in p:
            kw['noises'] = list(p['noises'])
        if p.get('P') is not None:
            kw['P'] = _arr(p, 'P')
        if _q0(p) is not None:
            kw['q0'] = _q0(p)
        return kw

    def make(self, p, dt, dip):
        return _f().EKF(**self.ctor_kwargs(dict(p, _dataless=True), dt, dip))

    def batch(self, p, dt, dip, gyr, acc, mag):
        o = _f().EKF(gyr=gyr, acc=acc, **self.ctor_kwargs(p, dt, dip))
        return o, o.Q

    def step(self, inst, p, q, g, a, m, dt_call):
        return inst.update(q, g, a, **_kw_dt(dt_call, inst.Dt))

    def state_arrays(self, inst):
        return {'P': inst.P, 'R': inst.R}


class EKFMARG(EKFIMU):
    name, sensors, tilt_only = 'ekf_marg', 'gam', False

    def batch(self, p, dt, dip, gyr, acc, mag):
        o = _f().EKF(gyr=gyr, acc=acc, mag=mag, **self.ctor_kwargs(p, dt, dip))
        return o, o.Q

    def step(self, inst, p, q, g, a, m, dt_call):
        return inst.update(q, g, a, m, **_kw_dt(dt_call, inst.Dt))


class UKFk(Kind):
    name, sensors, tilt_only, q0_route = 'ukf', 'ga', True, 'q0'

    def ctor_kwargs(self, p, dt, dip):
        kw = dict(_dt_kwargs(p, dt))
        for k in ('alpha', 'beta', 'kappa'):
            if k in p:
                kw[k] = p[k]
        if p.get('P') is not None:
            kw['P'] = _arr(p, 'P')
        if _q0(p) is not None:
            kw['q0'] = _q0(p)
        return kw

    def make(self, p, dt, dip):
        return _f().UKF(**self.ctor_kwargs(dict(p, _dataless=True), dt, dip))

    def batch(self, p, dt, dip, gyr, acc, mag):
        o = _f().UKF(gyr=gyr, acc=acc, **self.ctor_kwargs(p, dt, dip))
        return o, o.Q

    def step(self, inst, p, q, g, a, m, dt_call):
        return inst.update(q, g, a, **_kw_dt(dt_call, inst.Dt))

    def state_arrays(self, inst):
        return {'P': inst.P}


class AQUAIMU(Kind):
    name, sensors, tilt_only, conj, q0_route = 'aqua_imu', 'ga', True, True, 'q0'

    def ctor_kwargs(self, p, dt, dip):
        kw = dict(_dt_kwargs(p, dt))
        for k in ('alpha', 'beta', 'threshold', 'adaptive', 'frame'):
            if k in p:
                kw[k] = p[k]
        if _q0(p) is not None:
            kw['q0'] = _q0(p)
        return kw

    def make(self, p, dt, dip):
        return _f().AQUA(**self.ctor_kwargs(dict(p, _dataless=True), dt, dip))

    def batch(self, p, dt, dip, gyr, acc, mag):
        o = _f().AQUA(gyr=gyr, acc=acc, **self.ctor_kwargs(p, dt, dip))
        return o, o.Q

    def step(self, inst, p, q, g, a, m, dt_call):
        return inst.updateIMU(q, g, a, **_kw_dt(dt_call, inst.Dt))


class AQUAMARG(AQUAIMU):
    name, sensors, tilt_only = 'aqua_marg', 'gam', False

    def batch(self, p, dt, dip, gyr, acc, mag):
        o = _f().AQUA(gyr=gyr, acc=acc, mag=mag, **self.ctor_kwargs(p, dt, dip))
        return o, o.Q

    def step(self, inst, p, q, g, a, m, dt_call):
        return inst.updateMARG(q, g, a, m, **_kw_dt(dt_call, inst.Dt))


class FouratiK(Kind):
    name, sensors = 'fourati', 'gam'

    def ctor_kwargs(self, p, dt, dip):
        kw = dict(_dt_kwargs(p, dt))
        if 'gain' in p:
            kw['gain'] = p['gain']
        if not p.get('ref_default'):
            kw['magnetic_dip'] = float(dip)
        return kw

    def make(self, p, dt, dip):
        return _f().Fourati(**self.ctor_kwargs(dict(p, _dataless=True), dt, dip))

    def batch(self, p, dt, dip, gyr, acc, mag):
        o = _f().Fourati(gyr=gyr, acc=acc, mag=mag, **self.ctor_kwargs(p, dt, dip))
        return o, o.Q

    def step(self, inst, p, q, g, a, m, dt_call):
        return inst.update(q, g, a, m, **_kw_dt(dt_call, inst.Dt))


class ROLEQk(Kind):
    name, sensors, q0_route, uses_library_rng = 'roleq', 'gam', 'q0', True

    def _frame(self, p):
        return p.get('frame', 'NED')

    def refs(self, p, dip):
        if self._frame(p) == 'NED':
            return Z_DN, W.mref_from_dip('zx', dip)
        return Z_UP, W.mref_from_dip('y', dip)

    def ctor_kwargs(self, p, dt, dip):
        kw = dict(_dt_kwargs(p, dt))
        kw['frame'] = self._frame(p)
        mr = p.get('magnetic_ref', 'dip')
        if mr == 'dip':
            kw['magnetic_ref'] = float(dip)
        elif mr == 'vector':
            kw['magnetic_ref'] = np.array(self.refs(p, dip)[1], dtype=float) * float(p.get('mref_scale', 1.0))   # e.g. the local field in uT
        if p.get('weights') is not None:
            kw['weights'] = _arr(p, 'weights')
        if _q0(p) is not None:
            kw['q0'] = _q0(p)
        return kw

    def make(self, p, dt, dip):
        return _f().ROLEQ(**self.ctor_kwargs(dict(p, _dataless=True), dt, dip))

    def batch(self, p, dt, dip, gyr, acc, mag):
        o = _f().ROLEQ(gyr=gyr, acc=acc, mag=mag, **self.ctor_kwargs(p, dt, dip))
        return o, o.Q

    def step(self, inst, p, q, g, a, m, dt_call):
        return inst.update(q, g, a, m, **_kw_dt(dt_call, inst.Dt))


class AngularK(Kind):
    name, sensors, q0_route = 'angular', 'g', 'q0'

    def ctor_kwargs(self, p, dt, dip):
        kw = dict(_dt_kwargs(p, dt))
        if not (p.get('_dataless') and p.get('opts_per_call')):
            # 'opts_per_call': the streaming object is created with the class defaults and the integration method and
            # order are given on every call instead (both are documented parameters of update())
            kw['method'] = p.get('method', 'closed')
            kw['order'] = int(p.get('order', 1))
        if _q0(p) is not None:
            kw['q0'] = _q0(p)
        return kw

    def make(self, p, dt, dip):
        return _f().AngularRate(**self.ctor_kwargs(dict(p, _dataless=True), dt, dip))

    def batch(self, p, dt, dip, gyr, acc, mag):
        o = _f().AngularRate(gyr=gyr, **self.ctor_kwargs(p, dt, dip))
        return o, np.asarray(o.Q)

    def step(self, inst, p, q, g, a, m, dt_call):
        if p.get('opts_per_call'):
            return inst.update(q, g, method=p.get('method', 'closed'), order=int(p.get('order', 1)), **_kw_dt(dt_call, inst.Dt))
        return inst.update(q, g, method=inst.method, order=inst.order, **_kw_dt(dt_call, inst.Dt))


class AngularIntegration(Kind):
    """AngularRate(method='integration'): cumulative angular positions, batch only, three representations."""
    name, sensors, streaming = 'angular_integration', 'g', False

    def ctor_kwargs(self, p, dt, dip):
        kw = dict(_dt_kwargs(p, dt))
        kw['method'] = 'integration'
        kw['representation'] = p.get('representation', 'quaternion')
        return kw

    def batch(self, p, dt, dip, gyr, acc, mag):
        o = _f().AngularRate(gyr=gyr, **self.ctor_kwargs(p, dt, dip))
        rep = p.get('representation', 'quaternion')
        return o, np.asarray({'quaternion': getattr(o, 'Q', None), 'rotmat': getattr(o, 'R', None), 'angles': getattr(o, 'W', None)}[rep])


class FKFk(Kind):
    name, sensors, streaming = 'fkf', 'gam', False

    def ctor_kwargs(self, p, dt, dip):
        kw = dict(_dt_kwargs(p, dt))
        for k in ('sigma_g', 'sigma_a', 'sigma_m', 'Pk'):
            if k in p:
                kw[k] = p[k]
        return kw

    def batch(self, p, dt, dip, gyr, acc, mag):
        o = _f().FKF(gyr=gyr, acc=acc, mag=mag, **self.ctor_kwargs(p, dt, dip))
        return o, o.Q


class ComplementaryIMU(Kind):
    name, sensors, streaming, tilt_only, q0_route = 'complementary_imu', 'ga', False, True, 'w0'

    def ctor_kwargs(self, p, dt, dip):
        kw = dict(_dt_kwargs(p, dt))
        if 'gain' in p:
            kw['gain'] = p['gain']
        if p.get('w0') is not None:
            kw['w0'] = np.array(p['w0'], dtype=float)
        return kw

    def batch(self, p, dt, dip, gyr, acc, mag):
        o = _f().Complementary(gyr=gyr, acc=acc, **self.ctor_kwargs(p, dt, dip))
        return o, np.asarray(o.Q)


class ComplementaryMARG(ComplementaryIMU):
    name, sensors, tilt_only = 'complementary_marg', 'gam', False

    def batch(self, p, dt, dip, gyr, acc, mag):
        o = _f().Complementary(gyr=gyr, acc=acc, mag=mag, **self.ctor_kwargs(p, dt, dip))
        return o, np.asarray(o.Q)


# ---- single-frame estimators: per-sample functions attached to the bus -------
class SingleFrame(Kind):
    recursive = False
    sensors = 'am'
    cls = ''
    out_attr = 'Q'

    def make(self, p, dt, dip):
        return getattr(_f(), self.cls)(**self.ctor_kwargs(dict(p, _dataless=True), dt, dip))

    def batch(self, p, dt, dip, gyr, acc, mag):
        o = getattr(_f(), self.cls)(acc, mag, **self.ctor_kwargs(p, dt, dip))
        return o, np.asarray(getattr(o, self.out_attr))

    def step(self, inst, p, q, g, a, m, dt_call):
        return inst.estimate(a, m)


class OLEQk(SingleFrame):
    name, cls, uses_library_rng = 'oleq', 'OLEQ', True

    def _frame(self, p):
        return p.get('frame', 'NED')

    def refs(self, p, dip):
        if self._frame(p) == 'NED':
            return Z_DN, W.mref_from_dip('zx', dip)
        return Z_UP, W.mref_from_dip('y', dip)

    def ctor_kwargs(self, p, dt, dip):
        kw = {'frame': self._frame(p)}
        mr = p.get('magnetic_ref', 'dip')
        if mr == 'dip':
            kw['magnetic_ref'] = float(dip)
        elif mr == 'vector':
            kw['magnetic_ref'] = np.array(self.refs(p, dip)[1], dtype=float) * float(p.get('mref_scale', 1.0))   # e.g. the local field in uT
        if p.get('weights') is not None:
            kw['weights'] = _arr(p, 'weights')
        return kw


class FLAEk(SingleFrame):
    name, cls = 'flae', 'FLAE'

    def refs(self, p, dip):
        return Z_UP, W.mref_from_dip('-x', dip)

    def ctor_kwargs(self, p, dt, dip):
        kw = {'method': p.get('method', 'symbolic')}
        if not p.get('ref_default'):
            kw['magnetic_dip'] = float(dip)      # else: the class's own default (module-level) reference
        if p.get('weights') is not None:
            kw['weights'] = _arr(p, 'weights')
        return kw

    def step(self, inst, p, q, g, a, m, dt_call):
        return inst.estimate(a, m, method=inst.method)


class TiltK(SingleFrame):
    name, cls = 'tilt', 'Tilt'

    def ctor_kwargs(self, p, dt, dip):
        return {'representation': p.get('representation', 'quaternion')}

    def step(self, inst, p, q, g, a, m, dt_call):
        return inst.estimate(a, m, representation=inst.representation)


class TiltAcc(TiltK):
    name, sensors, tilt_only = 'tilt_acc', 'a', True

    def batch(self, p, dt, dip, gyr, acc, mag):
        o = _f().Tilt(acc, **self.ctor_kwargs(p, dt, dip))
        return o, np.asarray(o.Q)

    def step(self, inst, p, q, g, a, m, dt_call):
        return inst.estimate(a, representation=inst.representation)


class SAAMk(SingleFrame):
    name, cls = 'saam', 'SAAM'

    def ctor_kwargs(self, p, dt, dip):
        return {'representation': p.get('representation', 'quaternion')}

    def batch(self, p, dt, dip, gyr, acc, mag):
        o = _f().SAAM(acc, mag, **self.ctor_kwargs(p, dt, dip))
        return o, np.asarray(o.A if p.get('representation') == 'rotmat' else o.Q)


class FAMCk(SingleFrame):
    name, cls = 'famc', 'FAMC'


class FQAk(SingleFrame):
    name, cls = 'fqa', 'FQA'

    def ctor_kwargs(self, p, dt, dip):
        return {'mag_ref': np.array(W.mref_from_dip('x', dip))}


class QUESTk(SingleFrame):
    name, cls = 'quest', 'QUEST'

    def ctor_kwargs(self, p, dt, dip):
        kw = {} if p.get('ref_default') else {'magnetic_dip': float(dip)}
        if p.get('weights') is not None:
            kw['weights'] = np.array(p['weights'], dtype=float)
        return kw


class DavenportK(SingleFrame):
    name, cls = 'davenport', 'Davenport'

    def ctor_kwargs(self, p, dt, dip):
        kw = {} if p.get('ref_default') else {'magnetic_dip': float(dip)}
        if p.get('weights') is not None:
            kw['weights'] = np.array(p['weights'], dtype=float)
        return kw


class TRIADk(SingleFrame):
    name, cls, out_attr = 'triad', 'TRIAD', 'A'

    def _frame(self, p):
        return p.get('frame', 'NED')

    def refs(self, p, dip):
        a_ref, m_ref = (Z_UP, W.mref_from_dip('x', dip)) if self._frame(p) == 'NED' else (Z_DN, W.mref_from_dip('y', dip))
        if p.get('v1') is not None:
            # a user-supplied first reference (a tilted gravity reference, a sun vector): any direction that is
            # not close to the second reference
            v1 = np.array(p['v1'], dtype=float)
            v1 = v1 / np.linalg.norm(v1)
            m = np.array(m_ref, dtype=float)
            if abs(float(v1 @ m)) / np.linalg.norm(m) > 0.9:
                v1 = v1 * np.array([-1.0, 1.0, -1.0]) if self._frame(p) == 'NED' else v1 * np.array([1.0, -1.0, -1.0])
            a_ref = tuple(float(x) for x in v1)
        return a_ref, m_ref

    def ctor_kwargs(self, p, dt, dip):
        kw = {'representation': p.get('representation', 'rotmat'), 'frame': self._frame(p),
              'v2': [float(x) for x in self.refs(p, dip)[1]]}
        if p.get('v1') is not None:
            kw['v1'] = [float(x) * float(p.get('v1_scale', 1.0)) for x in self.refs(p, dip)[0]]
        return kw

    def batch(self, p, dt, dip, gyr, acc, mag):
        o = _f().TRIAD(acc, mag, **self.ctor_kwargs(p, dt, dip))
        return o, np.asarray(o.A)

    def step(self, inst, p, q, g, a, m, dt_call):
        return inst.estimate(a, m, representation=inst.representation)


class AQUAAlg(SingleFrame):
    """AQUA without gyroscopes: the algebraic fix, one estimate per sample."""
    name, cls, conj = 'aqua_alg', 'AQUA', True

    def ctor_kwargs(self, p, dt, dip):
        return {}


KINDS = {k.name: k() for k in (
    MadgwickIMU, MadgwickMARG, MahonyIMU, MahonyMARG, EKFIMU, EKFMARG, UKFk,
    AQUAIMU, AQUAMARG, FouratiK, ROLEQk, AngularK, AngularIntegration, FKFk, ComplementaryIMU,
    ComplementaryMARG, OLEQk, FLAEk, TiltK, TiltAcc, SAAMk, FAMCk, FQAk, QUESTk,
    DavenportK, TRIADk, AQUAAlg)}

def _attr_route(kind):
    orig = kind.make

    def make(p, dt, dip):
        inst = orig(p, dt, dip)
        if p.get('dt_route') == 'attr' and hasattr(inst, 'Dt'):
            inst.Dt = float(dt)
        return inst
    kind.make = make


for _k in KINDS.values():
    _attr_route(_k)

RECURSIVE_STREAMING = [k for k, v in KINDS.items() if v.recursive and v.streaming]
RECURSIVE_BATCH_ONLY = [k for k, v in KINDS.items() if v.recursive and not v.streaming]
SINGLE_FRAME = [k for k, v in KINDS.items() if not v.recursive]


# ---------------------------------------------------------------------------
# seeded parameter generation (swarm style: every run gets its own knobs)
# ---------------------------------------------------------------------------
def gen_params(rnd, kind, *, with_q0=True, defaults_prob=0.3):
    p = {'dt_route': rnd.choice(['Dt', 'Dt', 'frequency', 'call', 'attr']), 'dt_call': rnd.random() < 0.3}
    default = rnd.random() < defaults_prob
    k = KINDS[kind]
    if kind.startswith('madgwick'):
        # the data-less constructor cannot know which default gain applies: be explicit
        p['gain'] = (0.033 if kind.endswith('imu') else 0.041) if default else 10 ** rnd.uniform(-2.5, 0.5)
        if rnd.random() < 0.1:
            del p['gain']           # leave the choice of the default gain to the class (see known finding C06-madgwick-default-gain)
    elif kind.startswith('mahony'):
        if not default:
            p['k_P'] = 10 ** rnd.uniform(-1, 1)
            p['k_I'] = 10 ** rnd.uniform(-2, 0.5)
        if rnd.random() < 0.4:
            p['b0'] = [rnd.gauss(0, 0.01) for _ in range(3)]
    elif kind.startswith('ekf'):
        p['frame'] = rnd.choice(['NED', 'ENU'])
        p['magnetic_ref'] = rnd.choice(['dip', 'dip', 'vector', 'default'])      # 'default': the class asks the WMM (calendar frozen)
        if p['magnetic_ref'] == 'vector' and rnd.random() < 0.5:
            p['mref_scale'] = rnd.choice([48.0, 0.3, 5e4])
        if not default:
            p['noises'] = [10 ** rnd.uniform(-3, 0), 10 ** rnd.uniform(-3, 0), 10 ** rnd.uniform(-3, 0)]
        if rnd.random() < 0.4:
            s = 10 ** rnd.uniform(-3, 1)
            p['P'] = [[s if i == j else 0.0 for j in range(4)] for i in range(4)]
    elif kind == 'ukf':
        if not default:
            p['alpha'] = 10 ** rnd.uniform(-3, 0)
            p['beta'] = rnd.choice([0, 2, 2.0])
            p['kappa'] = rnd.choice([0, 0.0, 1.0])
        if rnd.random() < 0.4:
            sc = 10 ** rnd.uniform(-3, -1)
            p['P'] = [[sc if i == j else 0.0 for j in range(4)] for i in range(4)]
    elif kind.startswith('aqua') and kind != 'aqua_alg':
        if not default:
            p['alpha'] = 10 ** rnd.uniform(-3, -0.1)
            p['beta'] = 10 ** rnd.uniform(-3, -0.1)
            p['threshold'] = rnd.choice([0.9, 0.5, 0.99, 0.9995])
        p['adaptive'] = rnd.random() < 0.3
        p['frame'] = rnd.choice(['NED', 'ENU'])
    elif kind == 'fourati':
        if not default:
            p['gain'] = 10 ** rnd.uniform(-2, 0)
    elif kind in ('roleq', 'oleq'):
        p['frame'] = rnd.choice(['NED', 'ENU'])
        p['magnetic_ref'] = rnd.choice(['dip', 'dip', 'vector', 'default'])
        if rnd.random() < 0.5:
            p['weights'] = [rnd.choice([1.0, 0.5, 2.0, rnd.uniform(0.1, 3)]), rnd.choice([1.0, 0.5, rnd.uniform(0.1, 3)])]
            if rnd.random() < 0.25:
                # weights are only required to be non-negative: they need not be of order one
                p['weights'] = rnd.choice([[10.0, 1.0], [1.0, 25.0], [100.0, 100.0], [0.01, 0.02], [1e3, 1.0]])
    elif kind == 'angular':
        p['method'] = rnd.choice(['closed', 'series'])
        p['order'] = rnd.randint(0, 6)
        if rnd.random() < 0.4:
            p['opts_per_call'] = True
    elif kind == 'fkf':
        if not default:
            for s in ('sigma_g', 'sigma_a', 'sigma_m'):
                p[s] = 10 ** rnd.uniform(-3, -1)
    elif kind.startswith('complementary'):
        if not default:
            p['gain'] = rnd.choice([0.0, 1.0, rnd.uniform(0.5, 0.99), rnd.uniform(0, 1)])
    elif kind == 'flae':
        p['method'] = rnd.choice(['symbolic', 'eig', 'newton'])
        if rnd.random() < 0.5:
            p['weights'] = [rnd.uniform(0.1, 2), rnd.uniform(0.1, 2)]
    elif kind in ('tilt', 'tilt_acc', 'angular_integration'):
        p['representation'] = rnd.choice(['quaternion', 'rotmat', 'angles'])
    elif kind == 'saam':
        p['representation'] = rnd.choice(['quaternion', 'rotmat'])
    elif kind == 'triad':
        p['representation'] = rnd.choice(['quaternion', 'rotmat'])
        p['frame'] = rnd.choice(['NED', 'ENU'])
        if rnd.random() < 0.4:
            p['v1'] = W.rand_unit(rnd)
            p['v1_scale'] = rnd.choice([1.0, 1.0, 9.81])
    elif kind in ('quest', 'davenport'):
        if rnd.random() < 0.5:
            p['weights'] = [rnd.uniform(0.1, 2), rnd.uniform(0.1, 2)]
    if kind in ('flae', 'quest', 'davenport', 'fourati') and rnd.random() < 0.25:
        p['ref_default'] = True         # leave the magnetic reference to the class (a module-level constant)
    if with_q0 and k.q0_route == 'q0' and rnd.random() < 0.5:
        p['q0'] = W.rand_unit(rnd, 4)
        if rnd.random() < 0.15:
            # written the way people write it: a list of integers (handed over as such, not as a float array)
            p['q0'] = rnd.choice([[1, 0, 0, 0], [0, 1, 0, 0], [0, 0, 1, 0], [0, 0, 0, 1], [-1, 0, 0, 0]])
            p['q0_as_list'] = True
    return p
