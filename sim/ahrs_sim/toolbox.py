"""Toolbox task for C19: applies public callables of the package to *live* simulation data.

The registry is built by introspection (every public function of
ahrs.common.orientation / frames / mathfuncs, ahrs.utils.metrics,
ahrs.common.quaternion, and every public method / property / constructor route
of Quaternion, QuaternionArray and DCM, plus the per-sample methods of the
filter classes).  Arguments are bound by (module, parameter name) from the
current tick of the simulation: the estimates, the samples, their matrices and
angles, in degrees or radians, normalised or not, as single items and as N-row
arrays.  Callables that cannot be bound are listed by name, never silently
counted as covered.
"""
import copy
import inspect
import math
import numpy as np

from . import qmath as qm


class Unbound(Exception):
    pass


class Ctx:
    """Live data of one tick, handed to the binders.  ``rnd`` is the run's toolbox PRNG."""

    def __init__(self, rnd, hist, key, k, q_est):
        self.rnd, self.hist, self.key, self.k = rnd, hist, key, k
        self.q_est = np.array(q_est, dtype=float)
        self.shared_views = []      # (name, array) row views of bus buffers handed out

    # -- raw material ------------------------------------------------------
    def window(self, n=None):
        n = n or self.rnd.choice([2, 3, 5])
        lo = max(0, min(self.k, self.hist.n - n))
        return lo, lo + n

    def quat(self, unit=None):
        q = self.q_est.copy() if self.rnd.random() < 0.6 else self.hist.truth[self.k].copy()
        if unit is None:
            unit = self.rnd.random() < 0.5
        if not unit:
            q *= self.rnd.choice([0.5, 2.0, 3.7, 10.0])
        return q

    def quats(self):
        lo, hi = self.window()
        Q = self.hist.truth[lo:hi].copy()
        if self.rnd.random() < 0.5:
            Q *= self.rnd.choice([0.5, 2.0, 7.0])
        return Q

    def vec(self, which=None, shared_ok=True):
        which = which or self.rnd.choice(['acc', 'mag', 'gyr'])
        arr = {'acc': self.hist.acc[self.key], 'mag': self.hist.mag[self.key], 'gyr': self.hist.gyr}[which]
        if shared_ok and self.rnd.random() < 0.4:
            v = arr[self.k]                  # zero-copy row view of the bus buffer
            self.shared_views.append((which, v))
            return v
        return arr[self.k].copy()

    def vecs(self, which):
        lo, hi = self.window()
        arr = {'acc': self.hist.acc[self.key], 'mag': self.hist.mag[self.key], 'gyr': self.hist.gyr}[which]
        return arr[lo:hi].copy()

    def rotmat(self):
        return qm.q2R(qm.qnorm(self.quat(unit=True)))

    def rotmats(self):
        lo, hi = self.window()
        return np.array([qm.q2R(q) for q in self.hist.truth[lo:hi]])

    def angles(self, deg, many=False):
        if many:
            lo, hi = self.window()
            A = np.array([[self.rnd.uniform(-3, 3), self.rnd.uniform(-1.5, 1.5), self.rnd.uniform(-3, 3)] for _ in range(hi - lo)])
        else:
            A = np.array([self.rnd.uniform(-3, 3), self.rnd.uniform(-1.5, 1.5), self.rnd.uniform(-3, 3)])
        return np.degrees(A) if deg else A

    def scalar_or_array(self, lo, hi):
        """A frames.py style argument: Python float, 0-d array or 1-d array (conversions only mutate arrays)."""
        r = self.rnd.random()
        if r < 0.4:
            return self.rnd.uniform(lo, hi)
        if r < 0.7:
            return np.array(self.rnd.uniform(lo, hi))
        return np.array([self.rnd.uniform(lo, hi) for _ in range(self.rnd.choice([1, 3]))])


# ---------------------------------------------------------------------------
# binders: (module short name, parameter) -> value factory(ctx, call_kwargs_so_far)
# ---------------------------------------------------------------------------
def _deg_flag(kw):
    for k in ('in_deg', 'deg'):
        if k in kw:
            return bool(kw[k])
    return False


def bind_param(mod, fname, pname, ctx, kw):
    r = ctx.rnd
    if mod == 'frames':
        if pname in ('lat', 'lat0'):
            return ctx.scalar_or_array(-89, 89)
        if pname in ('lon', 'lon0'):
            return ctx.scalar_or_array(-179, 179)
        if pname in ('h', 'h0'):
            return ctx.scalar_or_array(0, 5000)
        if pname in ('x', 'y', 'z', 'x0', 'y0', 'z0') and fname not in ('enu2ned', 'ned2enu'):
            return ctx.scalar_or_array(4.0e6, 6.0e6)
        if pname == 'x':
            return ctx.vec(shared_ok=True) if r.random() < 0.7 else ctx.vecs('acc')
        if pname in ('east', 'north', 'up', 'down', 'cross', 'above', 'slant_range'):
            return ctx.scalar_or_array(1.0, 1000.0)
        if pname in ('az', 'elev', 'angle'):
            return ctx.scalar_or_array(1.0, 80.0)
        if pname == 'w':
            return 7.292115e-5
        if pname == 't':
            return r.uniform(0, 1000)
        raise Unbound(pname)
    if mod == 'dcm':
        if pname == 'axes':
            seq = r.choice(['zyx', 'xyz', 'zxz', 'y', 'xy', 'zy'])
            kw['_seq_len'] = len(seq)
            return list(seq) if r.random() < 0.6 else seq          # the docstring's own form is a list of characters
        if pname == 'angles':
            n = kw.get('_seq_len', 3)
            vals = [r.choice([0.0, r.uniform(-3, 3), r.uniform(-3, 3)]) for _ in range(n)]
            return vals if r.random() < 0.5 else np.array(vals)
        if pname == 'ax':
            return r.choice(['x', 'y', 'z', 0, 1, 2])
        if pname == 'ang':
            return r.choice([0.0, 0, r.uniform(-3, 3), r.uniform(-3, 3)])      # the zero angle takes the identity shortcut
        raise Unbound(pname)
    if mod == 'core':
        if pname == 'data':
            Q = ctx.quats()
            if r.random() < 0.7:
                Q[r.randrange(len(Q))] = np.nan
            return Q
        raise Unbound(pname)
    if mod == 'geometry':
        if pname == 'center':
            return ctx.vec()[:2].copy() if r.random() < 0.5 else [r.uniform(-5, 5), r.uniform(-5, 5)]
        if pname == 'phi':
            return r.uniform(-3, 3)
        if pname == 'axes':
            return np.array([r.uniform(0.5, 3), r.uniform(0.5, 3)])
        raise Unbound(pname)
    if mod == 'mathfuncs':
        if fname == 'skew':
            return ctx.vec()
        return r.choice([r.uniform(-360, 360), np.array([r.uniform(-360, 360) for _ in range(3)]), [30.0, 60.0]])
    if mod == 'metrics':
        if pname in ('R1', 'R2', 'A', 'B'):
            return ctx.rotmats() if kw.get('_many') else ctx.rotmat()
        if pname in ('q1', 'q2'):
            return ctx.quats() if kw.get('_many') else ctx.quat()
        if pname in ('x', 'y'):
            return ctx.quats() if kw.get('_many') else ctx.quat()
        raise Unbound(pname)
    # orientation / quaternion / dcm modules and class methods
    if pname in ('q', 'p', 'q0', 'q1', 'q2'):
        if fname == 'q_correct' or (fname in ('q2R', 'q_conj', 'q_norm', 'q2euler') and r.random() < 0.4):
            return ctx.quats()
        return ctx.quat()
    if pname == 'a':
        if fname == 'rotate':
            return ctx.vec() if r.random() < 0.6 else ctx.vecs('acc')
        return ctx.vecs('acc') if (fname == 'am2angles' and kw.get('_many')) else ctx.vec('acc')
    if pname == 'm':
        return ctx.vecs('mag') if (fname == 'am2angles' and kw.get('_many')) else ctx.vec('mag')
    if pname in ('v', 'w'):
        return ctx.vec()
    if pname == 'axis':
        return ctx.vec(r.choice(['acc', 'mag']))
    if pname == 'angle':
        return r.uniform(-3, 3) if kw.get('rad', True) else r.uniform(-170, 170)
    if pname in ('angles', 'Angles'):
        many = pname == 'Angles' or (fname in ('rpy2q',) and r.random() < 0.4)
        return ctx.angles(_deg_flag(kw), many=many)
    if pname in ('dcm', 'R', 'C', 'DCM'):
        if pname == 'DCM' or (fname in ('chiaverini', 'hughes', 'sarabandi', 'shepperd', 'itzhack', 'dcm2quat') and False):
            return ctx.rotmats()
        return ctx.rotmat()
    if pname == 't_array':
        return np.array(sorted(r.random() for _ in range(r.choice([1, 3, 5]))))
    if pname == 'dt':
        return 0.01
    if pname == 'size' or pname == 'n':
        return r.choice([1, 2, 5])
    if pname == 'weights':
        return None
    raise Unbound(pname)


OPTIONAL_CHOICES = {
    'in_deg': [False, True], 'deg': [True, False], 'rad': [True, False], 'return_euler': [False, True],
    'frame': ['ENU', 'NED'], 'representation': None, 'version': None, 'method': None, 'inplace': [False], 'order': ['H'],
    'element_wise': [False, True], 'angle_unit': ['deg', 'rad'], 'eta': [0.0], 'threshold': [0.9995, 0.9],
}
REPRESENTATIONS = {'ecompass': ['rotmat', 'quaternion', 'rpy', 'axisangle'], 'random_attitudes': ['quaternion', 'rotmat']}
VERSIONS = {'q2R': [1, 2], 'itzhack': [1, 2, 3]}
METHODS = ['shepperd', 'hughes', 'chiaverini', 'itzhack', 'sarabandi']

# documented in-place operations: the *receiver* may change
INPLACE_RECEIVER = {'normalize', 'remove_jumps', 'slerp_nan'}
# callables that draw from a module-level PRNG the harness does not own: only argument mutation is judged
NOT_REPEATABLE = {'filters.Sensors(quaternions)'}


class Entry:
    def __init__(self, name, kind, target, mod, fname, params):
        self.name, self.kind, self.target, self.mod, self.fname, self.params = name, kind, target, mod, fname, params


def build_registry():
    import ahrs
    import ahrs.common.orientation as O
    import ahrs.common.frames as F
    import ahrs.common.mathfuncs as M
    import ahrs.utils.metrics as ME
    import ahrs.common.quaternion as QM
    import ahrs.common.dcm as DM
    import ahrs.utils.core as CO
    import ahrs.common.geometry as GE
    reg = []
    for mod, short in ((O, 'orientation'), (F, 'frames'), (M, 'mathfuncs'), (ME, 'metrics'), (QM, 'quaternion'), (DM, 'dcm'), (CO, 'core'), (GE, 'geometry')):
        for n, f in sorted(vars(mod).items()):
            if n.startswith('_') or not inspect.isfunction(f) or f.__module__ != mod.__name__:
                continue
            reg.append(Entry(f'{short}.{n}', 'function', f, short, n, list(inspect.signature(f).parameters.values())))
    for cls, short in ((ahrs.Quaternion, 'Quaternion'), (ahrs.QuaternionArray, 'QuaternionArray'), (ahrs.DCM, 'DCM')):
        for n, f in sorted(vars(cls).items()):
            if n.startswith('_'):
                continue
            if isinstance(f, property):
                reg.append(Entry(f'{short}.{n}', 'property', n, short, n, []))
            elif callable(f):
                ps = [p for p in inspect.signature(f).parameters.values() if p.name != 'self']
                reg.append(Entry(f'{short}.{n}', 'method', n, short, n, ps))
        if short == 'Quaternion':
            for op in ('__add__', '__sub__', '__mul__', '__matmul__', '__pow__'):
                reg.append(Entry(f'Quaternion.{op}', 'operator', op, short, op, []))
        for route in {'Quaternion': ['array', 'array3', 'dcm', 'rpy', 'angles'], 'QuaternionArray': ['array', 'array3', 'DCM', 'rpy', 'angles'],
                      'DCM': ['array', 'q', 'rpy', 'euler', 'axang', 'x', 'y', 'z']}[short]:
            reg.append(Entry(f'{short}(<{route}>)', 'ctor', route, short, '__init__', []))
    # per-sample and batch entry points of the filter classes, called by the toolbox on arrays it owns
    for fn in ('Tilt.estimate', 'SAAM.estimate', 'FAMC.estimate', 'FQA.estimate', 'QUEST.estimate', 'Davenport.estimate', 'FLAE.estimate',
               'OLEQ.estimate', 'TRIAD.estimate', 'AQUA.estimate', 'AQUA.init_q', 'Complementary.am_estimation', 'AngularRate.integrate_angular_positions',
               'FLAE(weights)', 'OLEQ(weights)', 'ROLEQ(weights)', 'QUEST(weights)', 'Davenport(weights)', 'Mahony(b0)', 'EKF(P)', 'EKF(noises)',
               'EKF(magnetic_ref)', 'ROLEQ(magnetic_ref)', 'OLEQ(magnetic_ref)', 'FQA(mag_ref)', 'TRIAD(v1,v2)', 'UKF(P)', 'Fourati(magnetic_dip)',
               'Tilt(acc,mag)', 'SAAM(acc,mag)', 'FQA(acc,mag)', 'QUEST(acc,mag)', 'FLAE(acc,mag)', 'Davenport(acc,mag)', 'FAMC(acc,mag)', 'TRIAD(w1,w2)',
               'OLEQ(acc,mag)', 'AQUA(acc,mag)', 'EKF.Omega', 'EKF.f', 'EKF.dfdq', 'EKF.h', 'EKF.dhdq', 'UKF.compute_sigma_points', 'AQUA.Omega',
               'ROLEQ.attitude_propagation', 'ROLEQ.oleq', 'FKF.Omega4', 'FKF.measurement_quaternion_acc_mag', 'aqua.slerp_I', 'aqua.adaptive_gain',
               'Sensors(quaternions)', 'wmm.geodetic2spherical',
               'Madgwick.updateIMU', 'Madgwick.updateMARG', 'AQUA.updateIMU', 'AQUA.updateMARG', 'Fourati.update', 'AngularRate.update'):
        reg.append(Entry(f'filters.{fn}', 'filter', fn, 'filters', fn, []))
    return reg


def digest_args(args):
    out = []
    for a in args:
        if isinstance(a, np.ndarray):
            out.append((a.shape, str(a.dtype), a.tobytes()))
        elif isinstance(a, list):
            out.append(('list', repr(a)))
        else:
            out.append(None)
    return out


def same_result(a, b):
    if isinstance(a, tuple) and isinstance(b, tuple):
        return len(a) == len(b) and all(same_result(x, y) for x, y in zip(a, b))
    if isinstance(a, dict) and isinstance(b, dict):
        return a.keys() == b.keys() and all(same_result(a[k], b[k]) for k in a)
    if a is None or b is None:
        return a is None and b is None
    try:
        x, y = np.asarray(a), np.asarray(b)
        if x.dtype == object or y.dtype == object:
            return repr(a) == repr(b)
        return x.shape == y.shape and bool(np.array_equal(x, y, equal_nan=True))
    except Exception:       # noqa: BLE001
        return repr(a) == repr(b)


def make_receiver(short, ctx):
    import ahrs
    if short == 'Quaternion':
        return ahrs.Quaternion(ctx.quat())
    if short == 'QuaternionArray':
        return ahrs.QuaternionArray(ctx.quats())
    return ahrs.DCM(ctx.rotmat())


def prepare(entry, ctx):
    """Returns (label, thunk_factory, args) where args are the caller-owned objects to be digested and
    thunk_factory() returns a zero-argument callable performing the call on those very objects."""
    import ahrs
    r = ctx.rnd
    if entry.kind in ('function', 'method'):
        kw = {'_many': r.random() < 0.3}
        for p in entry.params:
            if p.default is not inspect.Parameter.empty and p.kind in (p.POSITIONAL_OR_KEYWORD, p.KEYWORD_ONLY):
                ch = OPTIONAL_CHOICES.get(p.name, 'skip')
                if p.name == 'representation':
                    ch = REPRESENTATIONS.get(entry.fname)
                elif p.name == 'version':
                    ch = VERSIONS.get(entry.fname)
                elif p.name == 'method':
                    ch = METHODS
                if ch and ch != 'skip' and r.random() < 0.7:
                    kw[p.name] = r.choice(ch)
        pos = []
        for p in entry.params:
            if p.kind in (p.VAR_POSITIONAL, p.VAR_KEYWORD):
                continue
            if p.default is inspect.Parameter.empty or (entry.mod == 'dcm' and p.name in ('axes', 'angles', 'ax', 'ang')):
                pos.append((p.name, bind_param(entry.mod, entry.fname, p.name, ctx, kw)))
            elif p.name in ('a', 'b') and entry.mod == 'frames':
                continue
        many = kw.pop('_many')
        kw.pop('_seq_len', None)
        args = [v for _, v in pos]
        if entry.kind == 'function':
            f = entry.target
            return f'{entry.name}{sorted(kw.items())}', (lambda: f(*args, **kw)), args, None
        recv = make_receiver(entry.mod, ctx)
        label = f'{entry.name}{sorted(kw.items())}'
        extra = []
        if entry.name == 'QuaternionArray.average':
            # optional array arguments of the one method that has them: caller-owned too
            n = int(recv.num_qts)
            if r.random() < 0.6:
                kw['weights'] = np.array([r.uniform(0.2, 3.0) for _ in range(n)])
                extra.append(kw['weights'])
                label += '[weights]'
            if r.random() < 0.4 and n >= 2:
                lo = r.randrange(0, n - 1)
                kw['span'] = (lo, r.randrange(lo + 1, n + 1))
                if 'weights' in kw:
                    kw['weights'] = kw['weights'][:kw['span'][1] - kw['span'][0]].copy()
                    extra[-1] = kw['weights']
                label += '[span]'
        return label, None, args + extra, (recv, entry.target, kw, len(args))
    if entry.kind == 'operator':
        # q + p, q - p, q * p, q @ p, q ** a with a caller-owned array (or scalar) on the right
        recv = make_receiver('Quaternion', ctx)
        other = r.uniform(-2.0, 3.0) if entry.target == '__pow__' else (ctx.quat() if r.random() < 0.8 else 2.5)
        args = [other] if isinstance(other, np.ndarray) else []
        kw = {}
        op = entry.target
        return f'Quaternion.{op}', (lambda: getattr(recv, op)(other)), args, None
    if entry.kind == 'property':
        recv = make_receiver(entry.mod, ctx)
        return entry.name, None, [], (recv, entry.target, None, 0)
    if entry.kind == 'ctor':
        route, short = entry.target, entry.mod
        cls = getattr(ahrs, short)
        if route == 'array':
            a = ctx.quat() if short == 'Quaternion' else (ctx.quats() if short == 'QuaternionArray' else ctx.rotmat())
            return entry.name, (lambda: cls(a)), [a], None
        if route == 'array3':
            a = ctx.vec() if short == 'Quaternion' else ctx.vecs('acc')
            return entry.name, (lambda: cls(a)), [a], None
        if route in ('dcm', 'DCM'):
            a = ctx.rotmat() if route == 'dcm' else ctx.rotmats()
            meth = r.choice(METHODS)
            return f'{entry.name}[{meth}]', (lambda: cls(**{route: a, 'method': meth})), [a], None
        if route in ('rpy', 'angles', 'euler'):
            a = ctx.angles(False, many=(short == 'QuaternionArray'))
            if route == 'euler':
                seq = r.choice(['zyx', 'xyz', 'zxz', 'y', 'xy'])
                a = a[:len(seq)].copy()
                axes = list(seq) if r.random() < 0.5 else seq
                return f'{entry.name}[{seq}]', (lambda: cls(euler=(axes, a))), [a, axes], None
            return entry.name, (lambda: cls(**{route: a})), [a], None
        if route == 'q':
            a = ctx.quat()
            return entry.name, (lambda: cls(q=a)), [a], None
        if route == 'axang':
            ax, ang = ctx.vec('acc'), r.uniform(-3, 3)
            return entry.name, (lambda: cls(axang=(ax, ang))), [ax], None
        ang = r.uniform(-3, 3)
        return entry.name, (lambda: cls(**{route: ang})), [], None
    return prepare_filter(entry, ctx)


def prepare_filter(entry, ctx):
    import ahrs
    import ahrs.filters as F
    import ahrs.filters.aqua as AQ
    r = ctx.rnd
    fn = entry.target
    a1, m1 = ctx.vec('acc'), ctx.vec('mag')
    g1 = ctx.vec('gyr')
    A, Mg, G = ctx.vecs('acc'), ctx.vecs('mag'), ctx.vecs('gyr')
    q = qm.qnorm(ctx.quat(unit=True))
    if fn.endswith('.estimate') or fn == 'AQUA.init_q':
        cls = fn.split('.')[0]
        kwc = {}
        if cls == 'FLAE':
            kwc['method'] = r.choice(['symbolic', 'eig', 'newton'])
        inst = getattr(F, cls)(**kwc)
        meth = getattr(inst, fn.split('.')[1])
        call_kw = {'method': kwc['method']} if cls == 'FLAE' else {}
        if cls == 'TRIAD' and r.random() < 0.5:
            call_kw = {'representation': 'quaternion'}
        used = None
        if fn.endswith('.estimate') and r.random() < 0.4:
            # a per-sample estimator has no memory: an object that has already processed a whole recording answers a sample
            # exactly as a new object does (first call: the used object, repetition: the new one)
            try:
                used = getattr(F, cls)(A, Mg, **dict(kwc, **({'representation': 'quaternion'} if cls == 'TRIAD' and call_kw else {})))
            except Exception:       # noqa: BLE001
                used = None
        if used is not None:
            turn = {'n': 0}
            new_meth, used_meth = meth, getattr(used, fn.split('.')[1])

            def meth(*a_, **k_):        # noqa: F811
                turn['n'] += 1
                return (used_meth if turn['n'] == 1 else new_meth)(*a_, **k_)
        # a per-sample estimator is stateless: another, strongly inconsistent sample in between must not matter
        a2 = ctx.vec('mag', shared_ok=False) * 0.3 + a1
        m2 = np.cross(a1, m1) + 0.1 * m1

        def disturb():
            try:
                meth(a2, m2, **call_kw)
            except Exception:       # noqa: BLE001
                pass
        return fn + (f"[{kwc['method']}]" if kwc else '') + ('[used-object]' if used is not None else ''), (lambda: meth(a1, m1, **call_kw)), [a1, m1], ('disturb', disturb)
    if fn in ('Madgwick.updateIMU', 'Madgwick.updateMARG', 'AQUA.updateIMU', 'AQUA.updateMARG', 'Fourati.update', 'AngularRate.update'):
        # update methods of the classes that carry no estimator state besides the quaternion they are handed: the same
        # call gives the same answer, whatever the object was asked in between (other samples, another period for
        # that one call, another integration method)
        cls, mname = fn.split('.')
        inst = getattr(F, cls)()
        meth = getattr(inst, mname)
        g2 = ctx.vec('gyr', shared_ok=False) * 1.7
        a2 = ctx.vec('acc', shared_ok=False)
        m2 = np.cross(a1, m1) + 0.1 * m1
        if cls == 'AngularRate':
            variant = r.choice(['default', 'series'])
            kw1 = {} if variant == 'default' else {'method': 'series', 'order': r.choice([1, 2, 4])}
            args1, args2 = (q, g1), (q, g2)
            kw2 = [{'method': 'series', 'order': 3, 'dt': 0.25}, {'method': 'closed', 'dt': 0.002}, {'dt': 0.25}][r.randrange(3)]
            label = f'{fn}[{variant}]'
        else:
            marg = mname in ('updateMARG', 'update')
            args1 = (q, g1, a1, m1) if marg else (q, g1, a1)
            args2 = (q, g2, a2, m2) if marg else (q, g2, a2)
            kw1, kw2 = {}, {'dt': r.choice([0.25, 0.002])}
            label = fn

        def disturb():
            try:
                meth(*args2, **kw2)
            except Exception:       # noqa: BLE001
                pass
        return label, (lambda: meth(*args1, **kw1)), list(args1), ('disturb', disturb)
    if fn == 'Complementary.am_estimation':
        inst = F.Complementary()
        if r.random() < 0.5:
            return fn, (lambda: inst.am_estimation(a1, m1)), [a1, m1], None
        return fn + '[N]', (lambda: inst.am_estimation(A, Mg)), [A, Mg], None
    if fn == 'AngularRate.integrate_angular_positions':
        inst = F.AngularRate()
        rep = r.choice(['angles', 'quaternion', 'rotmat'])
        return f'{fn}[{rep}]', (lambda: inst.integrate_angular_positions(G, 0.01, representation=rep)), [G], None
    if fn.endswith('(weights)'):
        cls = fn.split('(')[0]
        w = np.array([r.uniform(0.2, 2.0), r.uniform(0.2, 2.0)])
        def weights_of():
            o = getattr(F, cls)(weights=w)
            return np.array(getattr(o, 'a', getattr(o, 'w', None)))
        return fn, weights_of, [w], None
    if fn == 'Mahony(b0)':
        b = np.array([0.01, -0.02, 0.005])
        return fn, (lambda: F.Mahony(gyr=G, acc=A, b0=b).Q), [b, G, A], None
    if fn in ('EKF(P)', 'UKF(P)'):
        P = np.identity(4) * r.uniform(0.01, 2.0)
        cls = F.EKF if fn.startswith('EKF') else F.UKF
        return fn, (lambda: cls(gyr=G, acc=A, P=P).Q), [P, G, A], None
    if fn == 'EKF(noises)':
        nz = np.array([0.1, 0.2, 0.3])
        return fn, (lambda: F.EKF(noises=nz).R), [nz], None
    if fn.endswith('(magnetic_ref)'):
        cls = fn.split('(')[0]
        mr = ctx.vec('mag', shared_ok=False) * r.choice([1.0, 0.01])
        return fn, (lambda: getattr(F, cls)(magnetic_ref=mr).m_ref), [mr], None
    if fn == 'FQA(mag_ref)':
        mr = ctx.vec('mag', shared_ok=False)
        return fn, (lambda: F.FQA(mag_ref=mr).m_ref), [mr], None
    if fn == 'TRIAD(v1,v2)':
        v1, v2 = ctx.vec('acc', shared_ok=False), ctx.vec('mag', shared_ok=False)
        return fn, (lambda: (F.TRIAD(v1=v1, v2=v2).v1, F.TRIAD(v1=v1, v2=v2).v2)), [v1, v2], None
    if fn == 'Fourati(magnetic_dip)':
        md = np.array([0.0, 0.5, 0.0, 0.8])
        return fn, (lambda: F.Fourati(magnetic_dip=md).m_q), [md], None
    if fn.endswith('(acc,mag)') or fn == 'TRIAD(w1,w2)':
        cls = fn.split('(')[0]
        many = r.random() < 0.6
        aa, mm = (A, Mg) if many else (a1, m1)
        if cls == 'TRIAD':
            return fn, (lambda: F.TRIAD(aa, mm).A), [aa, mm], None
        return fn + ('[N]' if many else ''), (lambda: getattr(F, cls)(aa, mm).Q), [aa, mm], None
    ekf = None
    if fn.startswith('EKF.'):
        ekf = F.EKF(magnetic_ref=60.0)
        m = fn.split('.')[1]
        if m == 'Omega':
            return fn, (lambda: ekf.Omega(g1)), [g1], None
        if m == 'f':
            return fn, (lambda: ekf.f(q, g1, 0.01)), [q, g1], None
        if m == 'dfdq':
            return fn, (lambda: ekf.dfdq(g1, 0.01)), [g1], None
        if m == 'h':
            return fn, (lambda: ekf.h(q)), [q], None
        mode = r.choice(['normal', 'refactored'])
        return f'{fn}[{mode}]', (lambda: ekf.dhdq(q, mode)), [q], None
    if fn == 'UKF.compute_sigma_points':
        u = F.UKF()
        P = np.identity(4) * 0.01
        return fn, (lambda: u.compute_sigma_points(q, P)), [q, P], None
    if fn == 'AQUA.Omega':
        inst = F.AQUA()
        return fn, (lambda: inst.Omega(g1)), [g1], None
    if fn == 'ROLEQ.attitude_propagation':
        inst = F.ROLEQ(magnetic_ref=60.0)
        return fn, (lambda: inst.attitude_propagation(q, g1, 0.01)), [q, g1], None
    if fn == 'ROLEQ.oleq':
        inst = F.ROLEQ(magnetic_ref=60.0)
        return fn, (lambda: inst.oleq(a1, m1, q)), [a1, m1, q], None
    if fn == 'FKF.Omega4':
        inst = F.FKF()
        return fn, (lambda: inst.Omega4(g1)), [g1], None
    if fn == 'FKF.measurement_quaternion_acc_mag':
        inst = F.FKF()
        return fn, (lambda: inst.measurement_quaternion_acc_mag(q, a1, m1)), [q, a1, m1], None
    if fn == 'Sensors(quaternions)':
        # draws its noise from a module-level generator: judged for argument mutation only (see NOT_REPEATABLE)
        Q = ctx.quats() if r.random() < 0.5 else ctx.hist.truth[max(0, ctx.k - 12):ctx.k + 1].copy()
        if len(Q) < 10:
            Q = ctx.hist.truth[:min(ctx.hist.n, 12)].copy()
        gref = np.array([0.0, 0.0, 9.81])
        mref = ctx.vec('mag', shared_ok=False)
        return fn, (lambda: ahrs.Sensors(quaternions=Q, reference_gravitational_vector=gref, reference_magnetic_vector=mref).accelerometers), [Q, gref, mref], None
    if fn == 'wmm.geodetic2spherical':
        from ahrs.utils.wmm import geodetic2spherical
        lat, lon, h = np.array(r.uniform(-1.5, 1.5)), np.array(r.uniform(-3, 3)), np.array(r.uniform(0, 100.0))
        return fn, (lambda: geodetic2spherical(lat, lon, h)), [lat, lon, h], None
    if fn == 'aqua.slerp_I':
        return fn, (lambda: AQ.slerp_I(q, r_ratio, 0.9)), [q], None
    if fn == 'aqua.adaptive_gain':
        return fn, (lambda: AQ.adaptive_gain(a1)), [a1], None
    raise Unbound(fn)


r_ratio = 0.3
