"""Deterministic simulation kernel for Mayitzin/ahrs (see /verif/DESIGN.md)."""
