"""Generic harness around a check module.

A check module provides an object with

    pid, level, rule, assumptions, components (real/stub description)
    runs(tier) -> int                     number of seeded runs of the tier
    gen(seed, tier) -> scenario           JSON value, pure function of (seed, tier)
    run(scenario) -> result dict          {'violations': [...], 'stats': {...},
                                           'digest': hex, 'sig': str | None, 'sim_seconds': float}
    shrink_spec(scenario) -> dict         lists/ints/resets for shrink.shrink (optional)
    enumerated(tier) -> list of scenarios (optional, fault_enumeration tiers)

A violation is {'component', 'symptom', 'trigger', 'step', 'detail'}; its
*signature* for shrinking/replay is (component, symptom); known findings are
keyed by (component, symptom, trigger).

Exit codes: 0 held / 1 VIOLATION / 2 harness error.
"""
import concurrent.futures as cf
import faulthandler
import fnmatch
import hashlib
import json
import multiprocessing
import os
import subprocess
import sys
import time
import traceback

from . import shrink as SH
from . import probes as PR

VERIF = os.path.dirname(os.path.dirname(os.path.dirname(os.path.abspath(__file__))))
REPLAYS = os.path.join(os.environ['AHRS_SIM_EVIDENCE_DIR'], 'replays') if os.environ.get('AHRS_SIM_EVIDENCE_DIR') else os.path.join(VERIF, 'replays')
EVIDENCE = os.environ.get('AHRS_SIM_EVIDENCE_DIR') or os.path.join(VERIF, 'evidence')   # scratch runs (mutants) must not overwrite the real evidence
KNOWN = os.path.join(VERIF, 'known_findings.json')
MAIN = os.path.join(VERIF, 'sim', 'main.py')
PY = sys.executable

_CHECK = None       # set in the parent before fork


def sig_of(v):
    return (v['component'], v['symptom'])


def load_known(pid):
    try:
        with open(KNOWN) as f:
            data = json.load(f)
    except FileNotFoundError:
        return []
    return [e for e in data.get('findings', []) if e.get('property') == pid]


def match_known(known, v):
    for e in known:
        if e.get('status') != 'open':
            continue
        if e['component'] == v['component'] and fnmatch.fnmatchcase(str(v['symptom']), e['symptom']) and (e.get('trigger', 'any') == 'any' or fnmatch.fnmatchcase(str(v.get('trigger')), e['trigger'])):
            return e
    return None


def tree_hash(repo=None):
    repo = repo or os.environ.get('AHRS_SIM_REPO', '/repo')
    h = hashlib.sha256()
    root = os.path.join(repo, 'ahrs')
    for d, dirs, files in sorted(os.walk(root)):
        dirs.sort()
        for fn in sorted(files):
            if fn.endswith(('.py', '.COF')):
                p = os.path.join(d, fn)
                h.update(os.path.relpath(p, repo).encode())
                with open(p, 'rb') as f:
                    h.update(f.read())
    return h.hexdigest()[:16]


def repo_head(repo=None):
    repo = repo or os.environ.get('AHRS_SIM_REPO', '/repo')
    try:
        return subprocess.run(['git', '-C', repo, 'rev-parse', 'HEAD'], capture_output=True, text=True, timeout=20).stdout.strip()
    except Exception:       # noqa: BLE001
        return 'unknown'


# ---------------------------------------------------------------------------
# worker side
# ---------------------------------------------------------------------------
def _run_one(job):
    """job: ('seed', seed, tier, twice) or ('scn', scenario, tag)."""
    check = _CHECK
    faulthandler.dump_traceback_later(check.run_timeout, exit=True)
    t0 = time.monotonic()
    try:
        if job[0] == 'seed':
            _, seed, tier, twice = job
            scn = check.gen(seed, tier)
        else:
            _, scn, seed = job
            twice = False
        idx = seed if isinstance(seed, int) else (int(seed[4:]) if isinstance(seed, str) and seed.startswith('enum') else 1)
        probed = idx % 8 == 0 and PR.start()
        try:
            res = check.run(scn)
        finally:
            hits = PR.stop() if probed else None
        if probed:
            res.setdefault('stats', {})['probe_runs'] = 1
            res['stats']['probes'] = hits
        out = {'seed': seed, 'digest': res['digest'], 'stats': res.get('stats', {}), 'sig': res.get('sig'),
               'sim_seconds': res.get('sim_seconds', 0.0), 'violations': res['violations'], 'harness_error': None}
        if twice:
            res2 = check.run(check.gen(seed, tier) if job[0] == 'seed' else scn)
            out['digest2'] = res2['digest']
        if res['violations'] or job[0] == 'scn' or (isinstance(seed, int) and seed % 997 == 0) or job[0] == 'seed' and job[3]:
            out['scenario'] = scn
        out['wall'] = time.monotonic() - t0
        return out
    except Exception:       # noqa: BLE001
        return {'seed': job[1] if job[0] == 'seed' else job[2], 'harness_error': traceback.format_exc(), 'violations': [],
                'stats': {}, 'digest': None, 'sig': None, 'sim_seconds': 0.0, 'wall': time.monotonic() - t0}
    finally:
        faulthandler.cancel_dump_traceback_later()


def _shrink_one(args):
    """Minimise a failing scenario in a worker; returns (scenario, violation, runs)."""
    check = _CHECK
    scn, v = args
    target = sig_of(v)
    faulthandler.dump_traceback_later(check.shrink_timeout + 60, exit=True)
    try:
        known = load_known(check.pid)

        def still_fails(c):
            # the same signature must persist AND stay outside the known findings (a reduction must not
            # drift from a new violation onto a listed one, which would then be silently dropped)
            r = check.run(c)
            return any(sig_of(x) == target and match_known(known, x) is None for x in r['violations'])
        spec = check.shrink_spec(scn) if hasattr(check, 'shrink_spec') else {}
        best, runs = SH.shrink(scn, still_fails, lists=spec.get('lists', ()), ints=spec.get('ints', ()),
                               resets=spec.get('resets', ()), normalise=spec.get('normalise'),
                               budget=SH.Budget(max_runs=spec.get('max_runs', 300), max_seconds=check.shrink_timeout))
        r = check.run(best)
        vv = [x for x in r['violations'] if sig_of(x) == target and match_known(known, x) is None]
        return best, (vv[0] if vv else v), runs, r['digest']
    finally:
        faulthandler.cancel_dump_traceback_later()


def merge_stats(acc, st):
    for k, v in st.items():
        if isinstance(v, dict):
            merge_stats(acc.setdefault(k, {}), v)
        elif isinstance(v, (int, float)) and str(k).startswith('max_'):
            acc[k] = max(acc.get(k, v), v)
        elif isinstance(v, (int, float)):
            acc[k] = acc.get(k, 0) + v
        else:
            acc.setdefault(k, v)


def _standalone_child(check, scn, target, conn):
    try:
        res = check.run(scn)
        conn.send(any(sig_of(x) == target for x in res['violations']))
    except Exception:       # noqa: BLE001
        conn.send(False)
    finally:
        conn.close()


def _first_standalone(check, cands, width=16, timeout=300):
    """First (result, violation) of cands whose scenario shows the violation when executed alone in a clean fork."""
    ctx = multiprocessing.get_context('fork')
    for i in range(0, len(cands), width):
        procs = []
        for r2, v2 in cands[i:i + width]:
            a, b = ctx.Pipe(duplex=False)
            pr = ctx.Process(target=_standalone_child, args=(check, r2['scenario'], sig_of(v2), b))
            pr.start()
            b.close()
            procs.append((pr, a, r2, v2))
        hit = None
        for pr, a, r2, v2 in procs:
            ok = False
            try:
                if a.poll(timeout):
                    ok = bool(a.recv())
            except (EOFError, OSError):
                ok = False
            pr.join(5)
            if pr.is_alive():
                pr.terminate()
            if ok and hit is None:
                hit = (r2, v2)
        if hit is not None:
            return hit
    return None


# ---------------------------------------------------------------------------
# replay files
# ---------------------------------------------------------------------------
def write_replay(check, scn, v, digest, seed):
    os.makedirs(REPLAYS, exist_ok=True)
    blob = json.dumps(scn, sort_keys=True)
    tag = hashlib.sha256((blob + repr(sig_of(v))).encode()).hexdigest()[:10]
    path = os.path.join(REPLAYS, f'{check.pid}-{seed}-{tag}.json')
    with open(path, 'w') as f:
        json.dump({'property': check.pid, 'seed': seed, 'violation': v, 'digest': digest,
                   'repo_head': repo_head(), 'tree_hash': tree_hash(), 'scenario': scn}, f, indent=1, sort_keys=True)
    return path


def replay_file(check, path, quiet=False):
    """Re-execute a replay file in this interpreter.  Returns (reproduced, result)."""
    with open(path) as f:
        rep = json.load(f)
    res = check.run(rep['scenario'])
    target = (rep['violation']['component'], rep['violation']['symptom'])
    if rep['violation'].get('symptom') == 'nondeterministic-run':
        # the same scenario executed twice in one process (or in this fresh process, against the recorded digest)
        res2 = check.run(rep['scenario'])
        same_tree = rep.get('tree_hash') is not None and rep.get('tree_hash') == tree_hash()
        differs = res2['digest'] != res['digest'] or (same_tree and rep.get('digest') is not None and rep['digest'] != res['digest'])
        if not quiet:
            print('replay reproduced: the same scenario gives different event logs when executed again' if differs
                  else 'replay did NOT reproduce: two executions give the same event log')
        return bool(differs), res
    hit = [v for v in res['violations'] if sig_of(v) == target]
    if not quiet:
        if hit:
            print(f"replay reproduced: {hit[0]['component']} {hit[0]['symptom']} step={hit[0].get('step')} :: {hit[0].get('detail', '')[:300]}")
            if rep.get('digest') and rep['digest'] != res['digest']:
                print('warning: run digest differs from the recorded one (same violation)')
        else:
            print('replay did NOT reproduce the recorded violation; violations now:', [sig_of(v) for v in res['violations']])
    return bool(hit), res


def verify_replay_fresh(pid, path):
    env = dict(os.environ)
    env['PYTHONHASHSEED'] = '12345'
    try:
        r = subprocess.run([PY, MAIN, pid, '--replay', path], capture_output=True, text=True, timeout=900, env=env)
    except subprocess.TimeoutExpired:
        return False, 'timeout'
    return (r.returncode == 1 and f'VIOLATION property={pid}' in r.stdout), (r.stdout[-2000:] + r.stderr[-2000:])


# ---------------------------------------------------------------------------
# main driver
# ---------------------------------------------------------------------------
def run_check(check, tier='quick', seed0=0, workers=None, runs=None, wall_cap=None):
    global _CHECK
    _CHECK = check
    t_start = time.monotonic()
    pid = check.pid
    workers = workers or min(16, os.cpu_count() or 1)
    n_runs = runs if runs is not None else check.runs(tier)
    wall_cap = wall_cap or check.wall_cap(tier)
    known = load_known(pid)
    PR.resolve(os.environ.get('AHRS_SIM_REPO', '/repo'))
    print(f'[{pid}] tier={tier} VERIF_SEED={seed0} runs={n_runs} workers={workers} tree={tree_hash()}', flush=True)

    jobs = []
    enumerated = check.enumerated(tier) if hasattr(check, 'enumerated') else []
    for i, scn in enumerate(enumerated):
        jobs.append(('scn', scn, f'enum{i}'))
    det_n = check.determinism_sample(tier)
    for i in range(n_runs):
        jobs.append(('seed', seed0 * 1_000_003 + i, tier, i < det_n))
    # pinned repro scenarios of open known findings: replayed on every run
    for e in known:
        if e.get('status') == 'open' and e.get('repro') is not None:
            jobs.append(('scn', e['repro'], 'known:' + e['id']))

    ctx = multiprocessing.get_context('fork')
    results, harness_errors = [], []
    agg = {}
    timed_out = False
    with cf.ProcessPoolExecutor(max_workers=workers, mp_context=ctx) as pool:
        futs = [pool.submit(_run_one, j) for j in jobs]
        try:
            for f in cf.as_completed(futs, timeout=wall_cap):
                results.append(f.result())
        except cf.TimeoutError:
            timed_out = True
            for f in futs:
                f.cancel()
        except cf.process.BrokenProcessPool as e:
            harness_errors.append(f'worker died: {e!r}')
        if timed_out or harness_errors:
            for p in list(getattr(pool, '_processes', {}).values()):
                try:
                    p.terminate()
                except Exception:       # noqa: BLE001
                    pass

        results.sort(key=lambda r: str(r['seed']))
        sigs = set()
        sim_seconds = 0.0
        unknown, known_hits = [], {}
        det_fail = []
        samples = []
        for r in results:
            if r['harness_error']:
                harness_errors.append(f"seed {r['seed']}: {r['harness_error']}")
                continue
            merge_stats(agg, r['stats'])
            sim_seconds += r.get('sim_seconds', 0.0)
            if r['sig']:
                sigs.add(r['sig'])
            if 'digest2' in r and r['digest2'] != r['digest']:
                det_fail.append((r['seed'], 'in-process re-execution'))
            if 'scenario' in r and len(samples) < 3 and not str(r['seed']).startswith('known:'):
                samples.append({'seed': r['seed'], 'scenario': r['scenario'], 'digest': r['digest'],
                                'violations': [sig_of(v) for v in r['violations']]})
            for v in r['violations']:
                e = match_known(known, v)
                if e is not None:
                    known_hits.setdefault(e['id'], [e, 0])[1] += 1
                else:
                    unknown.append((r, v))

        # determinism: the first det_n seeds again in a fresh interpreter with another hash seed
        det_checked = 0
        seeds = [j[1] for j in jobs if j[0] == 'seed' and j[3]]
        if det_n and hasattr(check, 'history_sensitive'):
            # scenarios in which an object relies on something the library computes once per process (a class default): the
            # workers have a history, the fresh interpreter has another one, so these are the seeds worth re-executing there
            extra = []
            for j in jobs:
                if j[0] == 'seed' and not j[3] and len(extra) < 24:
                    try:
                        if check.history_sensitive(check.gen(j[1], tier)):
                            extra.append(j[1])
                    except Exception:       # noqa: BLE001
                        pass
            seeds = seeds + extra
        if det_n and seeds and not harness_errors and not timed_out:
            env = dict(os.environ)
            env['PYTHONHASHSEED'] = '4242'
            try:
                pr = subprocess.run([PY, MAIN, pid, '--tier', tier, '--digests', ','.join(map(str, seeds))],
                                    capture_output=True, text=True, timeout=600, env=env)
                fresh = json.loads(pr.stdout.strip().splitlines()[-1])
                mine = {str(r['seed']): r['digest'] for r in results if r['digest']}
                for s in seeds:
                    det_checked += 1
                    if fresh.get(str(s)) != mine.get(str(s)):
                        det_fail.append((s, 'fresh interpreter, other PYTHONHASHSEED'))
            except Exception as e:      # noqa: BLE001
                harness_errors.append(f'determinism subprocess failed: {e!r}')

        # minimise unknown violations (distinct signatures only, a few of each)
        reports = []
        seen = {}
        to_shrink = []
        for r, v in unknown:
            k = sig_of(v) + (v.get('trigger'),)
            seen[k] = seen.get(k, 0) + 1
            if seen[k] <= 1 and len(to_shrink) < 8 and 'scenario' in r:
                to_shrink.append((r, v))
        if seen:
            print(f'[{pid}] unlisted violation signatures (component, symptom, trigger): count')
            for k, c in sorted(seen.items(), key=lambda kv: (-kv[1], str(kv[0])))[:int(os.environ.get("AHRS_SIM_SIGS", "40"))]:
                print(f'[{pid}]   {k}: {c}')
        if to_shrink and not harness_errors:
            sfuts = [(r, v, pool.submit(_shrink_one, (r['scenario'], v))) for r, v in to_shrink]
            for r, v, f in sfuts:
                try:
                    best, vv, nruns, dg = f.result(timeout=check.shrink_timeout + 120)
                except Exception as e:      # noqa: BLE001
                    best, vv, nruns, dg = r['scenario'], v, 0, r['digest']
                    print(f'[{pid}] shrinking failed ({e!r}); reporting the unshrunk scenario')
                # a shrunk scenario may have drifted onto a known finding: re-classify
                reports.append((r['seed'], best, vv, nruns, dg))

    exit_code = 0
    violations_reported = 0
    for e_id, (e, cnt) in sorted(known_hits.items()):
        print(f"KNOWN-FINDING: property={pid} {e['what']} [{e['id']}; seen in {cnt} run(s)]")
    for e in known:
        if e.get('status') == 'open' and e['id'] not in known_hits:
            print(f"[{pid}] note: open known finding {e['id']} was not reproduced by this run")
    for seed, scn, v, nruns, dg in reports:
        if match_known(known, v) is not None:
            continue
        path = write_replay(check, scn, v, dg, seed)
        ok, out = verify_replay_fresh(pid, path)
        if not ok:
            # the run that showed it may have depended on what earlier runs left behind in the worker process (state
            # that the library keeps at module level): look for an occurrence that stands on its own, each candidate
            # executed in a process forked from this one, which has executed no scenario
            key = sig_of(v) + (v.get('trigger'),)
            cands = [(r2, v2) for r2, v2 in unknown if 'scenario' in r2 and sig_of(v2) + (v2.get('trigger'),) == key][:96]
            found = _first_standalone(check, cands)
            if found is not None:
                r2, v2 = found
                try:
                    os.remove(path)
                except OSError:
                    pass
                path = write_replay(check, r2['scenario'], v2, r2['digest'], r2['seed'])
                ok, out = verify_replay_fresh(pid, path)
                if ok:
                    seed, scn, v, nruns, dg = r2['seed'], r2['scenario'], v2, 0, r2['digest']
                    print(f'[{pid}] note: the first occurrence of this signature did not replay on its own (it depended on state left in the worker process by earlier runs); reporting an occurrence that does')
        if not ok:
            harness_errors.append(f'violation {sig_of(v)} (seed {seed}) did not replay in a fresh interpreter: {out[-600:]}')
            continue
        violations_reported += 1
        print(f"[{pid}] {v['component']}: {v['symptom']} (trigger={v.get('trigger')}, step={v.get('step')}) {v.get('detail', '')[:400]}")
        print(f"[{pid}] minimised with {nruns} re-executions; other occurrences of this signature: {seen.get(sig_of(v) + (v.get('trigger'),), 1) - 1}")
        print(f'VIOLATION property={pid} replay={path}')
        exit_code = 1
    if unknown and not reports and not harness_errors:
        harness_errors.append('violations found but none could be packaged for replay')
    if det_fail:
        msg = f'nondeterministic execution for seeds {det_fail[:5]}'
        if getattr(check, 'nondeterminism_is_violation', False) and not harness_errors:
            scn = check.gen(det_fail[0][0], tier)
            v = {'component': 'run', 'symptom': 'nondeterministic-run', 'trigger': det_fail[0][1], 'step': None, 'detail': msg}
            path = write_replay(check, scn, v, {str(r['seed']): r['digest'] for r in results}.get(str(det_fail[0][0])), det_fail[0][0])
            print(f'[{pid}] {msg}')
            print(f'VIOLATION property={pid} replay={path}')
            exit_code = 1
            violations_reported += 1
        else:
            harness_errors.append(msg)
    if timed_out:
        harness_errors.append(f'wall-clock cap of {wall_cap}s reached with {len(results)}/{len(jobs)} runs done')

    wall = time.monotonic() - t_start
    n_eval = sum(1 for r in results if not r['harness_error'])
    ev = {
        'property_id': pid, 'tier': tier, 'seed': int(seed0), 'level': check.level,
        'coverage': {
            'evaluations': n_eval,
            'distinct_nontrivial': len(sigs),
            'rule': check.rule,
            'samples': samples or [{'note': 'no sample scenario kept'}],
            'enumerated_cases': len(enumerated),
            'exhaustive': bool(getattr(check, 'exhaustive', False) and enumerated and not n_runs),
            'runs_per_hour': round(3600.0 * n_eval / max(wall, 1e-9)),
            'simulated_seconds': round(sim_seconds, 3),
            'stats': agg,
            'determinism': {'seeds_rechecked': det_checked, 'mismatches': len(det_fail)},
            'components': check.components,
            'rare_branch_probes': {'probed_runs': agg.get('probe_runs', 0),
                                   'hits': {n: agg.get('probes', {}).get(n, 0) for n in PR.all_names() if agg.get('probes', {}).get(n, 0)},
                                   'never_hit_in_this_run': [n for n in PR.all_names() if not agg.get('probes', {}).get(n, 0)],
                                   'unresolved': PR.unresolved(),
                                   'note': 'source lines of /repo counted with sys.monitoring on every 8th seeded run; a probe irrelevant to this property stays at 0'},
            'known_findings_reproduced': sorted(known_hits),
            'workers': workers,
            'tree_hash': tree_hash(),
        },
        'assumptions': check.assumptions,
        'wall_s': round(wall, 2),
        'violations': violations_reported,
    }
    if harness_errors:
        ev['coverage']['harness_errors'] = [h[-800:] for h in harness_errors[:5]]
    os.makedirs(EVIDENCE, exist_ok=True)
    with open(os.path.join(EVIDENCE, f'{pid}.json'), 'w') as f:
        json.dump(ev, f, indent=1, sort_keys=True, default=str)
    print(f'[{pid}] {n_eval} runs, {len(sigs)} distinct non-trivial, {round(sim_seconds, 1)} simulated s, '
          f'{violations_reported} violation(s), {len(known_hits)} known finding(s), wall {wall:.1f}s', flush=True)
    if harness_errors:
        for h in harness_errors[:5]:
            print(f'[{pid}] HARNESS ERROR: {h[-1500:]}', file=sys.stderr)
        return 2 if exit_code == 0 else exit_code
    return exit_code


def cli(check, argv):
    import argparse
    ap = argparse.ArgumentParser()
    ap.add_argument('--tier', default=os.environ.get('VERIF_TIER', 'quick'))
    ap.add_argument('--replay')
    ap.add_argument('--digests')
    ap.add_argument('--runs', type=int)
    ap.add_argument('--workers', type=int)
    ap.add_argument('--seed', type=int, default=int(os.environ.get('VERIF_SEED', '0') or 0))
    ap.add_argument('--show', type=int, help='print the scenario and result of one seed')
    a = ap.parse_args(argv)
    if a.tier not in ('quick', 'thorough'):
        a.tier = 'quick'
    global _CHECK
    _CHECK = check
    if a.replay:
        ok, res = replay_file(check, a.replay)
        if ok:
            print(f'VIOLATION property={check.pid} replay={os.path.abspath(a.replay)}')
            return 1
        return 0
    if a.digests:
        out = {}
        for s in a.digests.split(','):
            out[s] = check.run(check.gen(int(s), a.tier))['digest']
        print(json.dumps(out))
        return 0
    if a.show is not None:
        scn = check.gen(a.show, a.tier)
        print(json.dumps(scn, indent=1))
        r = check.run(scn)
        print(json.dumps({k: r[k] for k in ('violations', 'stats', 'digest', 'sig')}, indent=1, default=str))
        return 0
    return run_check(check, a.tier, a.seed, a.workers, a.runs)
