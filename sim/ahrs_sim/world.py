"""World stub: rigid-body truth, sensor images, and the fault injector.

A *world spec* is a JSON-serialisable dict (part of a scenario).  ``build`` is
a pure function of the spec and a list of channels: it returns the history the
sensor bus publishes.  No wall clock, no global PRNG.

    spec = {"dt": 0.01, "q0": [w,x,y,z],
            "segments": [{"t": "rest", "len": 30},
                         {"t": "rate", "len": 50, "w": [..3..]},
                         {"t": "kick", "axis": [..3..], "angle": rad},
                         {"t": "pose", "q": [..4..], "len": 5}],
            "g": 9.81, "mscale": 50.0, "dip": 60.0,
            "noise": {"acc": 0.0, "mag": 0.0, "gyr": 0.0}, "noise_seed": 7,
            "gyr_floor": 0.0,
            "faults": [{"kind": "dropout", "sensor": "acc", "start": 10, "len": 3}, ...]}

Truth convention: ``q[k]`` is body->global, ``q[k] = q[k-1] (x) exp(w[k] dt)``,
so ``w[k]`` (the gyro sample at tick k) is the body rate over (k-1, k].
A channel is a pair of reference vectors ``(a_ref, m_ref)``; its noise-free
samples are ``g * R(q)^T a_ref`` and ``mscale * R(q)^T m_ref``.
"""
import math
import numpy as np
from . import qmath as qm

FAULT_KINDS = ('dropout', 'glitch', 'scale', 'stuck', 'dup', 'kick', 'nan')


def truth(spec):
    """Return (Q_true[n,4], W_body[n,3], kick_ticks)."""
    dt = spec['dt']
    q = qm.qnorm(np.array(spec['q0'], dtype=float))
    Q = [q.copy()]
    W = [np.zeros(3)]
    kicks = []
    pending = None
    labels = ['start']
    cur_pose = None
    for seg in spec['segments']:
        t = seg['t']
        if t == 'kick':
            pending = ('rel', qm.axang(seg['axis'], seg['angle']))
            cur_pose = None
            continue
        if t == 'pose':
            pending = ('abs', qm.qnorm(np.array(seg['q'], dtype=float)))
            w = np.zeros(3)
        elif t == 'rest':
            w = np.zeros(3)
        elif t == 'rate':
            w = np.array(seg['w'], dtype=float)
        else:
            raise ValueError(f'unknown segment {t}')
        dq = qm.qexp(w * dt)
        for _ in range(int(seg['len'])):
            if pending is not None:
                q = qm.qmul(q, pending[1]) if pending[0] == 'rel' else pending[1].copy()
                kicks.append(len(Q))
                pending = None
            q = qm.qnorm(qm.qmul(q, dq))
            Q.append(q.copy())
            W.append(w.copy())
            if t == 'pose':
                cur_pose = 'pose:' + seg.get('name', '?')
            elif t != 'rest':
                cur_pose = None
            labels.append(cur_pose if cur_pose is not None and t in ('pose', 'rest') else t)
    truth.last_labels = labels
    return np.array(Q), np.array(W), kicks


def chan_key(a_ref, m_ref):
    return tuple(round(float(x), 12) for x in list(a_ref) + list(m_ref))


def mref_from_dip(kind, dip_deg):
    c, s = math.cos(math.radians(dip_deg)), math.sin(math.radians(dip_deg))
    return {'x': [c, 0.0, s], 'y': [0.0, c, -s], 'zx': [s, 0.0, c], '-x': [c, 0.0, -s]}[kind]


class History:
    """What the bus publishes.  Arrays are C-contiguous float64 and are *shared*
    by every subscriber of a channel (zero copy, as an application would do)."""

    def __init__(self):
        self.dt = None
        self.n = 0
        self.truth = None        # (n,4)
        self.rate = None         # (n,3) true body rate
        self.gyr = None          # (n,3)
        self.acc = {}            # chan_key -> (n,3)
        self.mag = {}
        self.fault_mask = None   # (n,) bitmask of fired faults per tick
        self.fired = {}          # fault kind -> number of ticks it changed
        self.kicks = []
        self.fixed_rows = {}


_FBIT = {k: 1 << i for i, k in enumerate(('dropout', 'glitch', 'scale', 'stuck', 'dup', 'kick', 'nan'))}


def build(spec, channels):
    """channels: list of (a_ref, m_ref).  Returns History."""
    Q, W, kicks = truth(spec)
    labels = list(truth.last_labels)
    n = len(Q)
    rng = np.random.Generator(np.random.PCG64(int(spec.get('noise_seed', 0))))
    nz = spec.get('noise', {})
    g = float(spec.get('g', 9.81))
    ms = float(spec.get('mscale', 50.0))
    h = History()
    h.dt = spec['dt']
    # noise drawn in a fixed order so that the history is a pure function of spec
    n_g = rng.standard_normal((n, 3))
    n_a = rng.standard_normal((n, 3))
    n_m = rng.standard_normal((n, 3))
    gyr = W + float(nz.get('gyr', 0.0)) * n_g + np.array(spec.get('gyr_bias', [0.0, 0.0, 0.0]), dtype=float)
    floor = float(spec.get('gyr_floor', 0.0))
    if floor > 0:
        # never exactly zero: several filters freeze on an all-zero gyro sample
        tiny = np.linalg.norm(gyr, axis=1) < floor
        if tiny.any():
            gyr[tiny] += floor * (n_g[tiny] / np.linalg.norm(n_g[tiny], axis=1)[:, None])
    Rt = np.array([qm.q2R(q).T for q in Q])
    # exact canonical poses: entries that are 0 or +-1 up to rounding are made exactly so, so that the
    # sensor images of "level", "inverted", "axis vertical" contain true zeros (where closed forms divide 0/0)
    Rt[np.abs(Rt) < 1e-15] = 0.0
    Rt[np.abs(Rt - 1.0) < 1e-15] = 1.0
    Rt[np.abs(Rt + 1.0) < 1e-15] = -1.0
    acc, mag = {}, {}
    for a_ref, m_ref in channels:
        key = chan_key(a_ref, m_ref)
        if key in acc:
            continue
        a_ref = np.array(a_ref, dtype=float)
        m_ref = np.array(m_ref, dtype=float)
        acc[key] = g * (Rt @ a_ref) + float(nz.get('acc', 0.0)) * g * n_a
        mag[key] = ms * (Rt @ m_ref) + float(nz.get('mag', 0.0)) * ms * n_m
    mask = np.zeros(n, dtype=np.int64)
    mask_am = np.zeros(n, dtype=np.int64)      # faults that touched the accelerometer or magnetometer channels
    for k in kicks:
        mask[k] |= _FBIT['kick']
    fired = {k: 0 for k in FAULT_KINDS}
    fired['kick'] = len(kicks)
    truthQ, rate = Q, W
    # value faults first, then duplications (which change the indexing)
    dups = []
    for f in spec.get('faults', []):
        kind = f['kind']
        if kind == 'dup':
            dups.append(f)
            continue
        s = int(f['start'])
        e = min(n, s + int(f.get('len', 1)))
        if s >= n or e <= s or s < 0:
            continue
        sensors = f['sensor'] if isinstance(f['sensor'], list) else [f['sensor']]
        for sensor in sensors:
            targets = [gyr] if sensor == 'gyr' else list((acc if sensor == 'acc' else mag).values())
            for arr in targets:
                if kind == 'dropout':
                    arr[s:e] = 0.0
                elif kind == 'glitch':
                    v = np.array(f['vec'], dtype=float)
                    arr[s:e] = v
                elif kind == 'scale':
                    arr[s:e] *= float(f['factor'])
                elif kind == 'stuck':
                    if s >= 1:
                        arr[s:e] = arr[s - 1]
                elif kind == 'nan':
                    comp = f.get('comp')
                    if comp is None:
                        arr[s:e] = np.nan
                    else:
                        arr[s:e, int(comp)] = np.nan
                else:
                    raise ValueError(f'unknown fault {kind}')
        mask[s:e] |= _FBIT[kind]
        if any(x in ('acc', 'mag') for x in sensors):
            mask_am[s:e] |= _FBIT[kind]
        fired[kind] += e - s
    if dups:
        idx = list(range(n))
        for f in sorted(dups, key=lambda f: -int(f['start'])):
            s = int(f['start'])
            if 0 <= s < n:
                idx.insert(s, s)
                fired['dup'] += 1
        idx = np.array(idx)
        dupmask = np.zeros(len(idx), dtype=np.int64)
        dupmask[1:][idx[1:] == idx[:-1]] = _FBIT['dup']
        gyr = gyr[idx]
        acc = {k: v[idx] for k, v in acc.items()}
        mag = {k: v[idx] for k, v in mag.items()}
        truthQ, rate, mask = truthQ[idx], rate[idx], mask[idx] | dupmask
        mask_am = mask_am[idx]
        labels = [labels[i] for i in idx]
    # no sample may leave acc and mag (nearly) parallel: the properties exclude it.  Faults that freeze or
    # replace one of the two vectors while the body turns can produce it, so every tick is looked at.
    fixed = {}
    for key in acc:
        a, m = acc[key], mag[key]
        na = np.linalg.norm(a, axis=1)
        nm = np.linalg.norm(m, axis=1)
        with np.errstate(all='ignore'):
            s_ang = np.linalg.norm(np.cross(a, m), axis=1) / (na * nm)
        for k in np.nonzero((s_ang < math.sin(math.radians(2.0))) & (na > 0) & (nm > 0))[0]:
            ax = np.cross(a[k], [1.0, 0.3, 0.1])
            if not np.linalg.norm(ax) > 1e-12 * max(na[k], 1e-300):
                ax = np.cross(a[k], [0.1, 1.0, 0.3])
            m[k] = qm.q2R(qm.axang(ax, math.radians(10.0))) @ m[k]
            fixed.setdefault(key, set()).add(int(k))
    h.n = len(gyr)
    h.truth = np.ascontiguousarray(truthQ)
    h.rate = np.ascontiguousarray(rate)
    h.gyr = np.ascontiguousarray(gyr)
    h.acc = {k: np.ascontiguousarray(v) for k, v in acc.items()}
    h.mag = {k: np.ascontiguousarray(v) for k, v in mag.items()}
    h.fault_mask = mask
    h.fault_mask_am = mask_am
    h.fired = fired
    h.kicks = kicks
    h.labels = labels
    h.fixed_rows = fixed       # per channel: rows whose magnetometer sample was turned away from the accelerometer's
    return h


# ---------------------------------------------------------------------------
# seeded generation of world specs (swarm style)
# ---------------------------------------------------------------------------
def rand_unit(rnd, dim=3):
    while True:
        v = [rnd.gauss(0, 1) for _ in range(dim)]
        n = math.sqrt(sum(x*x for x in v))
        if n > 1e-3:
            return [x / n for x in v]


def canonical_poses():
    """Level at 24 headings, inverted at 4 headings, each body axis vertical."""
    poses = []
    for i in range(24):
        poses.append((f'level_h{15*i}', qm.axang([0, 0, 1], math.radians(15.0 * i))))
    for i in range(4):
        poses.append((f'inverted_h{90*i}', qm.qmul(qm.axang([0, 0, 1], math.radians(90.0 * i)), qm.axang([1, 0, 0], math.pi))))
    poses.append(('x_up', qm.axang([0, 1, 0], math.pi / 2)))
    poses.append(('x_down', qm.axang([0, 1, 0], -math.pi / 2)))
    poses.append(('y_up', qm.axang([1, 0, 0], -math.pi / 2)))
    poses.append(('y_down', qm.axang([1, 0, 0], math.pi / 2)))
    poses.append(('pitch180', qm.axang([0, 1, 0], math.pi)))
    # single-axis attitudes: one accelerometer component is *exactly* zero at a generic angle
    for deg in (7.0, 23.0, 41.0, 58.0, 76.0, 104.0, 131.0, 157.0, -12.0, -33.0, -67.0, -118.0):
        poses.append((f'pitch_only_{deg:g}', qm.axang([0, 1, 0], math.radians(deg))))
        poses.append((f'roll_only_{deg:g}', qm.axang([1, 0, 0], math.radians(deg))))
    return poses


def gen_world(rnd, n_ticks, *, allow_kicks=True, allow_poses=False, max_rate=10.0,
              noise=True, magnitudes='nominal', gyr_floor=0.0):
    """Seeded world spec with ~n_ticks ticks (excluding faults)."""
    dt = rnd.choice([0.001, 0.002, 0.005, 0.01, 0.01, 0.01, 0.02, 0.05])
    segs = []
    remaining = n_ticks - 1
    while remaining > 0:
        ln = min(remaining, rnd.choice([1, 2, 5, 10, 20, 40, 80]))
        r = rnd.random()
        if r < 0.25:
            segs.append({'t': 'rest', 'len': ln})
        elif r < 0.85 or not (allow_kicks or allow_poses):
            mag = 10 ** rnd.uniform(-2, math.log10(max_rate))
            u = rand_unit(rnd)
            shape = rnd.random()
            if shape < 0.12:            # turn about one body axis: two rate components are exactly zero
                i = rnd.randrange(3)
                u = [math.copysign(1.0, u[i]) if j == i else 0.0 for j in range(3)]
            elif shape < 0.2:           # planar: one component exactly zero
                i = rnd.randrange(3)
                u = [0.0 if j == i else u[j] for j in range(3)]
                nrm = math.sqrt(sum(x * x for x in u)) or 1.0
                u = [x / nrm for x in u]
            segs.append({'t': 'rate', 'len': ln, 'w': [mag * x for x in u]})
        elif allow_poses and rnd.random() < 0.5:
            name, q = rnd.choice(canonical_poses())
            segs.append({'t': 'pose', 'q': [float(x) for x in q], 'len': ln, 'name': name})
        elif allow_kicks:
            segs.append({'t': 'kick', 'axis': rand_unit(rnd), 'angle': math.radians(rnd.uniform(0, 175))})
            continue
        else:
            continue
        remaining -= ln
    if magnitudes == 'decades':
        g = 10 ** rnd.uniform(-3, 3)
        ms = 10 ** rnd.uniform(-3, 5)
    elif magnitudes == 'unit':
        g, ms = 1.0, 1.0
    else:
        g = 9.81 * rnd.uniform(0.9, 1.1)
        ms = 50.0 * rnd.uniform(0.5, 2.0)
    nz = {'acc': 0.0, 'mag': 0.0, 'gyr': 0.0}
    if noise and rnd.random() < 0.7:
        nz = {'acc': 10 ** rnd.uniform(-5, -1.5), 'mag': 10 ** rnd.uniform(-5, -1.5),
              'gyr': 10 ** rnd.uniform(-5, -2)}
        if rnd.random() < 0.1:
            nz['gyr'] = 10 ** rnd.uniform(-13, -8)      # a resting sensor with a vanishing but non-zero rate output
    spec = {'dt': dt, 'q0': rand_unit(rnd, 4), 'segments': segs, 'g': g, 'mscale': ms,
            'dip': rnd.choice([-80.0, -60.0, -30.0, 0.0, 25.0, 45.0, 60.0, 66.0, 80.0, rnd.uniform(-80, 80)]),
            'noise': nz, 'noise_seed': rnd.randrange(1 << 30), 'gyr_floor': gyr_floor, 'faults': []}
    return spec


def n_ticks_of(spec):
    return 1 + sum(int(s.get('len', 0)) for s in spec['segments'] if s['t'] != 'kick')


def gen_faults(rnd, spec, kinds, max_faults=4, sensors=('acc', 'mag', 'gyr')):
    """Seeded fault list biased to land inside motion, right after a kick and at
    the first/last samples of the history."""
    n = n_ticks_of(spec)
    # interesting positions
    pos, k = [1, 2, n - 2, n - 1], 0
    for s in spec['segments']:
        if s['t'] == 'kick':
            pos.append(k + 1)
            continue
        if s['t'] in ('rate', 'pose'):
            pos.append(k + 1 + rnd.randrange(max(1, s['len'])))
        k += s['len']
    faults = []
    for _ in range(rnd.randint(1, max_faults)):
        kind = rnd.choice(kinds)
        start = rnd.choice(pos) if rnd.random() < 0.6 else rnd.randrange(1, max(2, n))
        start = max(1, min(n - 1, start))
        ln = rnd.choice([1, 1, 2, 3, 5, 10, 30])
        f = {'kind': kind, 'start': start, 'len': ln, 'sensor': rnd.choice(sensors)}
        if kind == 'glitch':
            scale = {'acc': spec['g'], 'mag': spec['mscale'], 'gyr': 1.0}[f['sensor']]
            mag = scale * 10 ** rnd.uniform(-3, 4)
            f['vec'] = [mag * x for x in rand_unit(rnd)]
        elif kind == 'scale':
            f['factor'] = 10 ** rnd.uniform(-3, 3)
        elif kind == 'dup':
            f['len'] = 1
            f.pop('sensor')
        elif kind == 'nan':
            f['sensor'] = rnd.choice(['acc', 'mag'])
            f['comp'] = rnd.choice([None, 0, 1, 2])
            f['len'] = rnd.choice([1, 1, 3])
        elif kind == 'dropout' and rnd.random() < 0.3:
            f['sensor'] = rnd.sample(list(sensors), rnd.randint(1, len(sensors)))
        faults.append(f)
    return faults
