"""C13 -- a dropped-out sensor sample never corrupts a recursive filter.

Level: fault_enumeration.  For every recursive filter x architecture (streaming
through the public update method where one exists, batch constructor always) a
motion history is published with *dropout* faults (all-zero accelerometer /
magnetometer / gyroscope rows).  The quick tier enumerates a grid of sensor
subsets x start positions x lengths; the thorough tier a finer grid plus seeded
random positions, lengths, combinations and a second fault kind in the window.

Oracles
  safety    from the first faulty sample to the end every output is a finite,
            real, unit quaternion (1e-9) or the call raised ValueError (a
            refusal: the application keeps its previous attitude); nothing else.
  recovery  twin run of the same filter on the same history without the
            dropouts; over the last WINDOW ticks of a tail that is long enough
            for the filter's gains, the distance between the two estimates
            (rotation angle for MARG variants, angle between predicted gravity
            directions for IMU variants) is below the filter's tolerance.
  carry-on  "skips its correction": through an accelerometer / magnetometer
            dropout of >= 5 samples with a valid gyroscope, a filter that
            refused no sample moves at least half as far as the dead reckoning
            of the gyroscope samples it was given and as its dropout-free twin
            (the smaller of the two, when that is >= 0.05 rad; windows within
            100 samples after a kick are not judged); EKF is exempt (it returns the
            prior, the mechanism the property names).
"""
import copy
import json
import math
import random
import numpy as np

from .. import boot, world as W, consumers as C, kernel as K, qmath as qm
from . import common as CM

WINDOW = 40
_TWIN_CACHE = {}      # pure-function memo (twin run of a fault-free history), per worker process
UNIT_TOL = 1e-9

# filter x architecture table: (kind, params, tail ticks at dt=0.01, recovery tolerance [rad])
# Gains are fixed per tier (the property does not quantify over gains); tolerances and tails are pinned
# constants calibrated once on the repaired tree with a >=10x margin (see DESIGN.md C13).
QUICK_TABLE = [
    ('madgwick_imu', {'gain': 0.5}, 300, 0.1),
    ('madgwick_marg', {'gain': 0.5}, 300, 0.1),
    ('mahony_imu', {'k_P': 3.0, 'k_I': 0.05}, 600, 0.02),
    ('mahony_marg', {'k_P': 3.0, 'k_I': 0.05}, 1500, 0.05),
    ('ekf_imu', {'frame': 'NED'}, 600, 0.05),
    ('ekf_marg', {'frame': 'NED'}, 900, 0.1),
    ('ekf_marg', {'frame': 'ENU'}, 900, 0.1),
    ('ekf_imu', {'frame': 'NED', 'noises': [0.09, 0.0025, 0.0025]}, 600, 0.05),      # accurate accelerometer and magnetometer: small R, large gain
    ('ekf_marg', {'frame': 'NED', 'noises': [0.09, 0.0025, 0.0025]}, 900, 0.1),
    ('ukf', {}, 400, 0.05),
    ('aqua_imu', {'alpha': 0.1, 'beta': 0.1}, 300, 1e-3),
    ('aqua_marg', {'alpha': 0.1, 'beta': 0.1}, 300, 1e-3),
    ('aqua_marg', {'alpha': 0.1, 'beta': 0.1, 'adaptive': True}, 300, 1e-3),
    ('fourati', {'gain': 1.0, 'tail_rate': 3.0}, 300, None),      # safety only, see DESIGN.md C13
    ('roleq', {'frame': 'NED'}, 300, 1e-3),
    ('roleq', {'frame': 'ENU'}, 300, 1e-3),
    ('roleq', {'frame': 'NED', 'weights': [1.0, 0.0]}, 200, None),     # one sensor switched off by its weight: heading or tilt
    ('roleq', {'frame': 'NED', 'weights': [0.0, 1.0]}, 200, None),     # unobservable, so safety only
    ('fkf', {}, 1500, 0.05),
    ('complementary_imu', {'gain': 0.9}, 200, 1e-3),
    ('complementary_marg', {'gain': 0.9}, 200, 1e-3),
]
DEFAULT_TABLE = [
    ('madgwick_imu', {'gain': 0.033}, 2500, 0.05),
    ('madgwick_marg', {'gain': 0.041}, 2500, 0.05),
    ('mahony_imu', {}, 3000, 0.05),
    ('mahony_marg', {}, 3000, 0.05),
    ('aqua_imu', {}, 2000, 1e-3),
    ('aqua_marg', {}, 2000, 1e-3),
]
# EKF answers a null accelerometer sample by returning the a-priori quaternion it was given (the mechanism the property
# itself names: "a_norm == 0 returns prior"): it stands still by design and is not judged by the carry-on oracle
FREEZE_EXEMPT = {'ekf_imu', 'ekf_marg'}
RELATIVE = 0.5       # a recovering filter has shed at least half of the peak lag by the end of the tail, or is inside its tolerance
SENSOR_SUBSETS = [['acc'], ['mag'], ['gyr'], ['acc', 'mag'], ['acc', 'gyr'], ['mag', 'gyr'], ['acc', 'mag', 'gyr']]


def base_world(seed, tail, dip=60.0, noise=1e-4, tail_rate=0.2):
    rnd = random.Random(f'C13w/{seed}')
    u1, u2, u3 = W.rand_unit(rnd), W.rand_unit(rnd), W.rand_unit(rnd)
    segs = [{'t': 'rest', 'len': 30},
            {'t': 'rate', 'len': 120, 'w': [0.5 * x for x in u1]},
            {'t': 'kick', 'axis': W.rand_unit(rnd), 'angle': math.radians(15.0)},
            {'t': 'rate', 'len': 120, 'w': [0.3 * x for x in u2]},
            {'t': 'rest', 'len': 30},
            {'t': 'rate', 'len': int(tail), 'w': [tail_rate * x for x in u3]},
            {'t': 'rest', 'len': WINDOW + 10}]
    return {'dt': 0.01, 'q0': W.rand_unit(rnd, 4), 'segments': segs, 'g': 9.81, 'mscale': 50.0, 'dip': dip,
            'noise': {'acc': noise, 'mag': noise, 'gyr': noise}, 'noise_seed': rnd.randrange(1 << 30),
            'gyr_floor': 1e-6, 'faults': []}


FAULT_ZONE_END = 300        # every fault ends before the tail starts (30+120+120+30)
STARTS = {'first': 1, 'mid-motion': 90, 'after-kick': 151, 'late': None}


CONFIG_NAMES = {'Dt', 'frequency', 'gain', 'gain_imu', 'gain_marg', 'k_P', 'k_I', 'frame', 'g_noise', 'a_noise', 'm_noise', 'alpha', 'beta',
                'kappa', 'threshold', 'adaptive', 'sigma_a', 'sigma_g', 'sigma_m'}


def scalar_config(obj):
    """The documented scalar parameters of a filter object (gains, periods, noise levels, flags, frame): its configuration."""
    if obj is None:
        return None
    out = {}
    for k, val in vars(obj).items():
        if k not in CONFIG_NAMES:
            continue        # only the documented parameters: a diagnostic counter a class may keep is not configuration
        if isinstance(val, (bool, int, float, str)) or val is None:
            out[k] = val
        elif isinstance(val, np.generic) and np.ndim(val) == 0:
            out[k] = val.item()
    return out


def same_scalar(a, b):
    if isinstance(a, float) and isinstance(b, float):
        return a == b or (math.isnan(a) and math.isnan(b)) or abs(a - b) <= 1e-9 * max(abs(a), abs(b))
    return a == b


class Check:
    pid = 'C13'
    level = 'fault_enumeration'
    run_timeout = 600
    shrink_timeout = 200
    rule = ('one case = (filter, architecture stream|batch, gains, history seed, dropout pattern); quick enumerates sensor '
            'subset (7 non-empty subsets of acc/mag/gyr) x start in {1, mid-motion, right after a kick, last possible} x '
            'length in {1,5,50} (plus the first sample, lengths 1 and 5, with the class\'s own initialisation) for every filter x architecture, thorough adds start 2, lengths {2,20,100}, two '
            'disjoint dropouts and seeded random patterns with a second fault kind in the window, a gyro bias or a per-call period; distinct = distinct '
            '(filter, architecture, frame/gain variant, fault pattern); non-trivial = at least one zeroed row actually '
            'reached the filter after its first sample')
    assumptions = [
        'recovery tolerances and tail lengths are pinned per filter and gain set (calibrated once, >=10x margin); a regression smaller than the margin is missed',
        'the convention table (DESIGN.md 1.2) provides physically consistent data so that filters operate in their normal regime; the safety oracle does not depend on it',
        'a ValueError from a streaming step is a refusal: the application keeps its previous attitude and carries on; from a batch constructor it refuses the history',
        'numpy.linalg.LinAlgError, although a ValueError subclass, is counted as a numerical breakdown, not as a refusal',
        'recovery is judged over the last 40 ticks of the tail only (eventually-within-tolerance), not at a filter-specific instant',
    ]
    components = {
        'real': ['every recursive filter class of ahrs.filters, streaming update methods and batch constructors'],
        'stub': ['rigid-body truth, sensor images, dropout injector (ahrs_sim.world)', 'application loop that keeps the previous attitude on refusal'],
    }
    exhaustive = True

    def runs(self, tier):
        return 300 if tier == 'quick' else 30000

    def wall_cap(self, tier):
        return 800 if tier == 'quick' else 6600

    def determinism_sample(self, tier):
        return 3 if tier == 'quick' else 16

    # ------------------------------------------------------------------
    def _scenario(self, kind, params, tail, tol, arch, faults, wseed=0, extra_faults=()):
        params = dict(params)
        world = base_world(wseed, tail, tail_rate=params.pop('tail_rate', 0.2))
        world['faults'] = list(faults) + list(extra_faults)
        return {'kind': kind, 'params': dict(params), 'arch': arch, 'tail': tail, 'tol': tol, 'world': world}

    def enumerated(self, tier):
        out = []
        lengths = [1, 5, 50] if tier == 'quick' else [1, 2, 5, 20, 100]
        starts = ['zero', 'first', 'mid-motion', 'after-kick', 'late'] if tier == 'quick' else ['zero', 'first', 'second', 'mid-motion', 'after-kick', 'late']
        table = QUICK_TABLE if tier == 'quick' else QUICK_TABLE + DEFAULT_TABLE
        for kind, params, tail, tol in table:
            archs = ['stream', 'batch'] if C.KINDS[kind].streaming else ['batch']
            for arch in archs:
                for sensors in SENSOR_SUBSETS:
                    if not set(sensors) & set(C.KINDS[kind].sensors.replace('g', 'gyr ').replace('a', 'acc ').replace('m', 'mag ').split()):
                        continue
                    for sname in starts:
                        for ln in lengths:
                            s = {'zero': 0, 'first': 1, 'second': 2, 'mid-motion': 90, 'after-kick': 151, 'late': FAULT_ZONE_END - ln}[sname]
                            if sname == 'zero' and (arch == 'stream' or (tier == 'quick' and ln > 5)):
                                continue        # a stream starts from a given attitude; tick 0 is never fed
                            f = [{'kind': 'dropout', 'sensor': list(sensors), 'start': s, 'len': ln}]
                            out.append(self._scenario(kind, params, tail, tol, arch, f))
                            if sname == 'zero' and C.KINDS[kind].q0_route == 'q0':
                                # the class's own initialisation from a zeroed first sample (no q0 given)
                                # safety oracle only: the class's own first attitude may be far from the stub's truth
                                # (other frame convention), and convergence from far away is C05's subject
                                out.append(self._scenario(kind, dict(params, _own_init=True), tail, None, arch, f))
                if tier != 'quick':
                    # two disjoint dropouts of different sensors
                    for s1, s2 in (('acc', 'mag'), ('gyr', 'acc'), ('mag', 'gyr')):
                        f = [{'kind': 'dropout', 'sensor': [s1], 'start': 60, 'len': 10},
                             {'kind': 'dropout', 'sensor': [s2], 'start': 200, 'len': 10}]
                        out.append(self._scenario(kind, params, tail, tol, arch, f))
        return out

    def gen(self, seed, tier):
        rnd = random.Random(f'C13/{seed}')
        table = QUICK_TABLE + (DEFAULT_TABLE if rnd.random() < 0.15 else [])
        kind, params, tail, tol = rnd.choice(table)
        arch = rnd.choice(['stream', 'batch']) if C.KINDS[kind].streaming else 'batch'
        faults = []
        for _ in range(rnd.randint(1, 3)):
            ln = rnd.choice([1, 1, 2, 3, 5, 10, 20, 50, 100])
            s = rnd.randrange(0 if arch == 'batch' and rnd.random() < 0.1 else 1, FAULT_ZONE_END - ln + 1)
            faults.append({'kind': 'dropout', 'sensor': rnd.choice(SENSOR_SUBSETS), 'start': s, 'len': ln})
        extra = []
        if rnd.random() < 0.4:
            w = base_world(seed, tail)
            f0 = faults[0]
            k2 = rnd.choice(['glitch', 'scale', 'stuck'])
            e = {'kind': k2, 'sensor': rnd.choice(['acc', 'mag', 'gyr']), 'start': max(1, f0['start'] - rnd.randint(0, 3)), 'len': rnd.choice([1, 3, 10])}
            if k2 == 'glitch':
                scale = {'acc': 9.81, 'mag': 50.0, 'gyr': 1.0}[e['sensor']]
                e['vec'] = [scale * 10 ** rnd.uniform(-1, 1) * x for x in W.rand_unit(rnd)]
            elif k2 == 'scale':
                e['factor'] = 10 ** rnd.uniform(-1, 1)
            extra.append(e)
        scn = self._scenario(kind, params, tail, tol, arch, faults, wseed=seed % 50, extra_faults=extra)
        scn['world']['dip'] = rnd.choice([60.0, -40.0, 10.0, 30.0])
        if rnd.random() < 0.3:
            # a constant gyroscope bias: the filter has to hold the attitude against it with its gain
            b = rnd.uniform(0.01, 0.06)
            scn['world']['gyr_bias'] = [b * x for x in W.rand_unit(rnd)]
        if rnd.random() < 0.3:
            # the period is given per call to a data-less instance built with the class default (10 ms); batch gets Dt
            scn['params']['dt_route'] = 'call'
            scn['world']['dt'] = 0.02
        return scn

    # ------------------------------------------------------------------
    def _exec(self, kind, p, arch, hist, key, dip):
        """Run the filter on a history; returns (outputs list, refusals, extra)."""
        n = hist.n
        g, a, m = hist.gyr, hist.acc[key], hist.mag[key]
        if arch == 'batch':
            own_init = bool(p.get('_own_init'))
            if kind.q0_route == 'q0' and not p.get('_own_init'):
                # start the batch run at the truth too (convergence from a far initial attitude is C05's subject)
                tq = hist.truth[0]
                p = dict(p, q0=[float(x) for x in (qm.qconj(tq) if kind.conj else tq)])
            p = {k: v for k, v in p.items() if k != '_own_init'}
            res, obj = K.run_batch(kind, p, hist.dt, dip, g.copy(), a.copy(), m.copy())
            extra = None
            if obj is not None and hasattr(obj, 'W') and kind.name.startswith('complementary'):
                extra = np.array(obj.W)
            if obj is None and kind.name.startswith('complementary') and isinstance(res, K.Refusal):
                # Complementary computes W in the constructor and Q lazily: look at W when only Q failed
                try:
                    import ahrs
                    o = ahrs.filters.Complementary(gyr=g.copy(), acc=a.copy(), **({'mag': m.copy()} if 'm' in kind.sensors else {}), **kind.ctor_kwargs(p, hist.dt, dip))
                    extra = np.array(o.W)
                except Exception:       # noqa: BLE001
                    extra = None
            if isinstance(res, np.ndarray):
                self._last_obj = obj
                return [res[k] for k in range(len(res))], 0, extra, None
            self._last_obj = obj
            return res, 0, extra, None
        inst = kind.make(p, hist.dt, dip)
        self._last_obj = inst
        tq = hist.truth[0]
        q = qm.qconj(tq) if kind.conj else tq.copy()
        out = [q.copy()]
        refusals = 0
        for k in range(1, n):
            try:
                r = K.out_to_array(kind.step(inst, p, q, g[k] if 'g' in kind.sensors else None,
                                             a[k] if 'a' in kind.sensors else None, m[k] if 'm' in kind.sensors else None, C.call_dt(p, hist.dt)))
                out.append(r)
                if r is not None and CM.attitude_defect(r, tol=1e-6) is None:
                    q = r
                elif r is not None:
                    q = r       # the application trusts what it gets: corruption must show
            except np.linalg.LinAlgError as e:
                out.append(K.Crash(e))
                return out, refusals, None, k
            except ValueError as e:
                out.append(K.Refusal(str(e)[:120]))
                refusals += 1
            except Exception as e:      # noqa: BLE001
                out.append(K.Crash(e))
                return out, refusals, None, k
        return out, refusals, None, None

    def run(self, scn):
        boot.set_today(boot.BOOT_ORDINAL)
        boot.seed_library_rng(12345)
        kind = C.KINDS[scn['kind']]
        p = dict(scn['params'])
        arch = scn['arch']
        dip = scn['world']['dip']
        a_ref, m_ref = kind.refs(p, dip)
        key = W.chan_key(a_ref, m_ref)
        hist = W.build(scn['world'], [(a_ref, m_ref)])
        twin_spec = copy.deepcopy(scn['world'])
        twin_spec['faults'] = [f for f in twin_spec['faults'] if f['kind'] != 'dropout']
        twin = W.build(twin_spec, [(a_ref, m_ref)])
        log = K.EventLog()
        viol = []
        drop_rows = np.nonzero(hist.fault_mask & 1)[0]
        # only rows of sensors this filter actually reads count
        used = {'gyr': 'g' in kind.sensors, 'acc': 'a' in kind.sensors, 'mag': 'm' in kind.sensors}
        zero_rows = set()
        for f in scn['world']['faults']:
            if f['kind'] != 'dropout':
                continue
            sens = f['sensor'] if isinstance(f['sensor'], list) else [f['sensor']]
            if any(used[s] for s in sens):
                zero_rows.update(range(f['start'], min(hist.n, f['start'] + f['len'])))
        first = min(zero_rows) if zero_rows else None
        sensors_hit = sorted({s for f in scn['world']['faults'] if f['kind'] == 'dropout' for s in (f['sensor'] if isinstance(f['sensor'], list) else [f['sensor']]) if used[s]})
        trigger = f"{arch}:{'+'.join(sensors_hit)}" + (':at0' if first == 0 else '')
        stats = {'cases': {f'{kind.name}/{arch}': 1}, 'zero_rows': len(zero_rows), 'refusals': 0, 'batch_refused': 0,
                 'recovery_checked': 0, 'steps': 0, 'faults_fired': dict(hist.fired)}

        def v(symptom, step, detail):
            return {'component': kind.name, 'symptom': symptom, 'trigger': trigger, 'step': step, 'detail': detail}

        np.random.seed(777)
        out_f, refusals, extra, crash_at = self._exec(kind, p, arch, hist, key, dip)
        cfg_f = scalar_config(getattr(self, '_last_obj', None))
        ck = json.dumps([scn['kind'], scn['params'], arch, twin_spec], sort_keys=True)
        cached = _TWIN_CACHE.get(ck)
        if cached is None:
            np.random.seed(777)
            out_t, _, _, _ = self._exec(kind, p, arch, twin, key, dip)
            cached = (out_t, scalar_config(getattr(self, '_last_obj', None)))
            if len(_TWIN_CACHE) > 64:
                _TWIN_CACHE.clear()
            _TWIN_CACHE[ck] = cached
        out_t, cfg_t = cached
        stats['refusals'] = refusals
        trivial = first is None
        # a filter that is already invalid on the history *without* dropouts is C03's subject, not C13's
        twin_ok = isinstance(out_t, list) and all(
            isinstance(o, np.ndarray) and CM.attitude_defect(o, tol=UNIT_TOL) is None for o in out_t)
        if not twin_ok:
            stats['twin_invalid'] = 1
            log.add('twin-invalid')
            return {'violations': [], 'stats': stats, 'digest': log.digest(), 'sig': None, 'sim_seconds': hist.n * hist.dt}

        usable = True
        if isinstance(out_f, K.Refusal):
            stats['batch_refused'] = 1
            log.add('batch-refused')
            usable = False
            if extra is not None and not np.all(np.isfinite(extra)):
                viol.append(v('nan', int(np.nonzero(~np.isfinite(extra).all(axis=1))[0][0]), 'constructor computed NaN attitude angles (attribute W); only the lazy quaternion view raised ValueError'))
        elif isinstance(out_f, K.Crash):
            viol.append(v(f'crash:{out_f.etype}', 0, f'batch constructor raised {out_f.etype}: {out_f.msg}'))
            usable = False
        else:
            stats['steps'] = len(out_f)
            if arch == 'batch' and len(out_f) != hist.n:
                viol.append(v('length', 0, f'{len(out_f)} attitudes for {hist.n} samples'))
                usable = False
            # safety
            start = 0 if first is None else first
            bad_before = None
            for k in range(0, min(start, len(out_f))):
                o = out_f[k]
                if isinstance(o, np.ndarray) and CM.attitude_defect(o, tol=UNIT_TOL) is not None:
                    bad_before = k
                    break
                if isinstance(o, K.Crash):
                    bad_before = k
                    break
            if bad_before is not None:
                stats['invalid_before_fault'] = 1      # not attributable to the dropout (C03's subject)
                usable = False
            else:
                for k in range(start, len(out_f)):
                    o = out_f[k]
                    log.add(k, o if isinstance(o, np.ndarray) else repr(type(o)))
                    if isinstance(o, K.Refusal):
                        continue
                    if isinstance(o, K.Crash):
                        viol.append(v(f'crash:{o.etype}', k, f'tick {k} ({k - start} after the first zeroed sample): {o.etype}: {o.msg}'))
                        usable = False
                        break
                    d = CM.attitude_defect(o, tol=UNIT_TOL)
                    if d is not None:
                        viol.append(v(CM.defect_class(d), k, f'tick {k} ({k - start} after the first zeroed sample): output {d}: {np.array2string(np.asarray(o), precision=6)}'))
                        usable = False
                        break
        # "skips its correction": a filter that accepts a zeroed accelerometer / magnetometer sample (no refusal) while the
        # gyroscope is valid carries on with the gyroscope; it does not stand still while the body turns
        if usable and not trivial and kind.name not in FREEZE_EXEMPT and isinstance(out_t, list) and len(out_t) == hist.n and len(out_f) == hist.n \
                and all(f['kind'] == 'dropout' for f in scn['world']['faults']) and 'g' in kind.sensors:
            drops = scn['world']['faults']
            for f in drops:
                sens = f['sensor'] if isinstance(f['sensor'], list) else [f['sensor']]
                s0, e0 = f['start'], min(hist.n, f['start'] + f['len']) - 1
                if 'gyr' in sens or not any(used[x] for x in sens) or s0 < 2 or e0 - s0 < 4:
                    continue
                if any(g is not f and g['start'] <= e0 and g['start'] + g['len'] > s0 - 1 for g in drops):
                    continue            # another dropout overlaps: not attributable
                if np.any(hist.fault_mask[max(0, s0 - 100):e0 + 1] & 32):
                    continue            # a kick in or shortly before the window: the estimate's motion is then dominated by
                                        # the correction towards the new attitude (which may oppose the gyroscope), not by it
                win = out_f[s0 - 1:e0 + 1]
                if not all(isinstance(o, np.ndarray) for o in win):
                    continue            # refused somewhere in the window: the application holds its attitude, by contract
                # reference model: dead reckoning of the gyroscope samples the filter was given, from its own estimate
                qs = qm.qconj(out_f[s0 - 1]) if kind.conj else np.array(out_f[s0 - 1], dtype=float)
                qp = qs.copy()
                for k in range(s0, e0 + 1):
                    qp = qm.qnorm(qm.qmul(qp, qm.qexp(np.asarray(hist.gyr[k], dtype=float) * hist.dt)))
                mt = self._dist(kind, a_ref, qm.qconj(qp) if kind.conj else qp, out_f[s0 - 1])
                mf = self._dist(kind, a_ref, out_f[e0], out_f[s0 - 1])
                # ... and the dropout-free twin: a filter that estimates a gyroscope bias rightly moves less than the raw
                # samples say, so the yardstick is the smaller of the two movements
                mt = min(mt, self._dist(kind, a_ref, out_t[e0], out_t[s0 - 1]))
                stats['carry_on_checked'] = stats.get('carry_on_checked', 0) + 1
                log.add('carry-on', round(mt, 9), round(mf, 9))
                if mt >= 0.05 and mf < 0.5 * mt:
                    viol.append(v('frozen', e0, f'during the {"+".join(sens)} dropout of ticks {s0}..{e0} (gyroscope valid, no sample refused) the estimate moved {mf:.4g} rad while the gyroscope samples it was given and the dropout-free run both amount to at least {mt:.4g} rad'))
                    break
        # hidden mode switches: at the end of the history the filter object must carry the same scalar configuration
        # (gains, periods, flags) as the object that processed the history without dropouts
        if cfg_f is not None and cfg_t is not None and not trivial and not isinstance(out_f, (K.Refusal, K.Crash)) and crash_at is None:
            diff = sorted(k for k in set(cfg_f) | set(cfg_t) if not same_scalar(cfg_f.get(k), cfg_t.get(k)))
            stats['config_compared'] = 1
            if diff:
                viol.append(v('config-changed', None, f'after the dropout the filter object differs from its dropout-free twin in {[(k, cfg_t.get(k), cfg_f.get(k)) for k in diff][:4]}'))
        # recovery against the twin
        if usable and not trivial and isinstance(out_t, list) and len(out_t) == hist.n and len(out_f) == hist.n:
            ok_twin = all(isinstance(o, np.ndarray) and CM.attitude_defect(o, tol=1e-6) is None for o in out_t[-WINDOW:])
            if ok_twin:
                stats['recovery_checked'] = 1
                worst, at, peak = 0.0, None, 0.0
                for k in range(first, hist.n):
                    o = out_f[k]
                    if not isinstance(o, np.ndarray):
                        continue
                    d = self._dist(kind, a_ref, o, out_t[k])
                    peak = max(peak, d)
                    if k >= hist.n - WINDOW and d > worst:
                        worst, at = d, k
                stats['max_recovery_rad'] = {f'max_{kind.name}/{arch}': worst}
                stats['max_peak_lag_rad'] = {f'max_{kind.name}/{arch}': peak}
                log.add('recovery', round(worst, 9), round(peak, 9))
                if scn['tol'] is not None and not worst <= scn['tol'] and not worst <= RELATIVE * peak:
                    viol.append(v('no-recovery', at, f'{hist.n - 1 - max(zero_rows)} ticks after the dropout ended the estimate is still {worst:.4g} rad from the run without dropout (tolerance {scn["tol"]} rad; peak lag was {peak:.4g} rad)'))
        sig = None if trivial else f"{kind.name}|{arch}|{sorted(p.items())}|{[(f['kind'], str(f['sensor']), f['start'], f['len']) for f in scn['world']['faults']]}|{scn['world'].get('noise_seed')}"
        log.add('viol', [(x['symptom'], x['step']) for x in viol])
        return {'violations': viol, 'stats': stats, 'digest': log.digest(), 'sig': sig, 'sim_seconds': hist.n * hist.dt}

    @staticmethod
    def _dist(kind, a_ref, q1, q2):
        if kind.tilt_only:
            a = np.array(a_ref, dtype=float)
            r1 = qm.q2R(qm.qconj(q1) if kind.conj else q1).T @ a
            r2 = qm.q2R(qm.qconj(q2) if kind.conj else q2).T @ a
            return qm.vec_angle(r1, r2)
        return qm.rot_angle(q1, q2)

    def shrink_spec(self, scn):
        def normalise(c):
            drops = [f for f in c['world']['faults'] if f['kind'] == 'dropout']
            if not drops or any(not f['sensor'] or f['len'] < 1 for f in drops):
                return None
            return c
        return {'lists': [('world', 'faults'), ('world', 'faults', '*', 'sensor')],
                'ints': [(('world', 'faults', '*', 'len'), 1), (('world', 'faults', '*', 'start'), 1)],
                'resets': [(('world', 'noise'), {'acc': 0.0, 'mag': 0.0, 'gyr': 0.0}), (('world', 'dip'), 60.0)],
                'normalise': normalise, 'max_runs': 80}


CHECK = Check()
