"""Oracles shared by the checks."""
import math
import numpy as np
from ..kernel import Refusal, Crash


def same_bits(a, b):
    """Bit-identical outcomes (arrays, refusals, crashes, None)."""
    if isinstance(a, np.ndarray) and isinstance(b, np.ndarray):
        return a.shape == b.shape and a.dtype == b.dtype and a.tobytes() == b.tobytes()
    if isinstance(a, Refusal) and isinstance(b, Refusal):
        return True
    if isinstance(a, Crash) and isinstance(b, Crash):
        return a.etype == b.etype
    return a is None and b is None


def max_abs_diff(a, b):
    """NaN-aware max |a-b|; inf if the NaN patterns differ or shapes differ."""
    a = np.asarray(a)
    b = np.asarray(b)
    if a.shape != b.shape:
        return math.inf
    if np.iscomplexobj(a) or np.iscomplexobj(b):
        a = a.astype(complex)
        b = b.astype(complex)
    na, nb = np.isnan(a), np.isnan(b)
    if (na != nb).any():
        return math.inf
    ok = ~na
    if not ok.any():
        return 0.0
    with np.errstate(all='ignore'):
        d = np.abs(a[ok] - b[ok])
    d = d[~np.isnan(d)]          # inf - inf
    return float(d.max()) if d.size else 0.0


def attitude_defect(x, representation='quaternion', tol=1e-9):
    """None if x is a valid attitude in the given representation, else a short reason."""
    if x is None:
        return 'returned None'
    x = np.asarray(x)
    if x.dtype == object:
        return f'object dtype'
    if np.iscomplexobj(x):
        return 'complex dtype'
    if not np.issubdtype(x.dtype, np.floating):
        return f'dtype {x.dtype}'
    if not np.all(np.isfinite(x)):
        return 'NaN' if np.isnan(x).any() else 'inf'
    if representation == 'quaternion':
        if x.shape != (4,):
            return f'shape {x.shape}'
        n = math.sqrt(float(x @ x))
        if abs(n - 1.0) > tol:
            return f'norm {n:.12g}'
    elif representation == 'rotmat':
        if x.shape != (3, 3):
            return f'shape {x.shape}'
        if np.abs(x @ x.T - np.eye(3)).max() > tol:
            return 'not orthogonal'
        if abs(np.linalg.det(x) - 1.0) > tol:
            return f'det {np.linalg.det(x):.6g}'
    elif representation == 'angles':
        if x.shape != (3,):
            return f'shape {x.shape}'
    return None


def defect_class(reason):
    """Coarse symptom class of an attitude defect (stable across values)."""
    if reason is None:
        return None
    for k in ('NaN', 'inf', 'complex', 'norm', 'shape', 'None', 'orthogonal', 'det', 'dtype'):
        if k in reason:
            return {'None': 'returned-none', 'orthogonal': 'not-rotation', 'det': 'not-rotation'}.get(k, k.lower())
    return 'invalid'
