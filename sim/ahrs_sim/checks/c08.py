"""C08 -- gyro integration exact for constant rates / of the stated order; common dead-reckoning step.

A statement about time-stepping nodes against the closed-form truth *as a
function of simulated time*, and about what the nodes do under a fault (null
accelerometer => dead reckoning).  Four scenario families, all executed by the
real classes:

 const       a body turning at a constant rate for n ticks: AngularRate closed form, streamed through
             update() and run through the batch constructor, must equal q0 (x) exp(w t / 2) at every tick
             (1e-13 * k + 1e-12); series orders 0..6 from the same prior: one-step defect against the
             closed form <= 2.5 * x^(k+1) + 1e-14, x = |w| dt / 2, and not increasing with the order (1e-14 floor);
 deadreckon  a motion history with accelerometer dropouts: at every tick whose accelerometer sample is
             null, Madgwick, Mahony and AQUA (IMU and MARG, each in its own attitude convention) must
             advance by the normalised first-order step from their previous output; on every tick the
             public prediction steps EKF.f and ROLEQ.attitude_propagation must equal the same step (1e-12);
 recorder    QuaternionArray(truth).angular_velocities(dt), re-integrated tick by tick with the closed
             form, reproduces the recorded truth within 0.05 * N * (|w| dt)^3 + 1e-9 rad.
"""
import math
import random
import numpy as np

from .. import boot, world as W, consumers as C, kernel as K, qmath as qm

TOL_DR = 1e-12


def first_order(q, w, dt):
    """Normalised first-order step q + 1/2 q (x) (0, w) dt (body-rate convention)."""
    return qm.qnorm(np.asarray(q) + 0.5 * dt * qm.qmul(q, np.r_[0.0, w]))


class Check:
    pid = 'C08'
    level = 'exploration'
    run_timeout = 300
    shrink_timeout = 100
    rule = ('one case = one scenario of a family: const (q0, constant rate 1e-2..10 rad/s, dt 1e-3..5e-2 s, n up to 600 ticks, dt given '
            'by Dt, frequency or per call), deadreckon (seeded motion history with accelerometer dropouts, one filter instance per '
            'convention) or recorder (seeded piecewise-constant-rate truth); distinct = distinct scenario; non-trivial = at least 2 '
            'integration steps compared against the closed-form truth')
    assumptions = [
        'closed-form truth q0 (x) exp(w t / 2) is computed by the harness in float64 (ahrs_sim.qmath), independently of the package',
        'series-order bound constant 2.5 and the 1e-14 monotonicity floor come from a probe on the repaired tree (max observed 2.0)',
        'the purely asymptotic part (order of the series) is the weakest fit for simulation: it is a per-step comparison along the simulated trajectory',
        'dead-reckoning reference for AQUA is the same step in the conjugate (global-to-local) convention',
    ]
    components = {
        'real': ['AngularRate.update / AngularRate(gyr).Q', 'Madgwick/Mahony/AQUA update methods on null accelerometer samples', 'EKF.f', 'ROLEQ.attitude_propagation', 'QuaternionArray.angular_velocities'],
        'stub': ['closed-form rigid-body truth, sensor images, dropout injector'],
    }

    def runs(self, tier):
        return 6000 if tier == 'quick' else 120000

    def wall_cap(self, tier):
        return 600 if tier == 'quick' else 6600

    def determinism_sample(self, tier):
        return 4 if tier == 'quick' else 32

    # ------------------------------------------------------------------
    def gen(self, seed, tier):
        rnd = random.Random(f'C08/{seed}')
        fam = rnd.choice(['const', 'const', 'deadreckon', 'recorder'])
        big = tier != 'quick'
        if fam == 'const':
            mag = 10 ** rnd.uniform(-2, 1)
            return {'family': 'const', 'q0': W.rand_unit(rnd, 4), 'w': [mag * x for x in W.rand_unit(rnd)],
                    'dt': 10 ** rnd.uniform(-3, math.log10(5e-2)), 'n': rnd.choice([2, 5, 30, 100, 300] + ([600] if big else [])),
                    'dt_route': rnd.choice(['Dt', 'frequency', 'call', 'call']), 'q0_scale': rnd.choice([1.0, 1.0, 3.0]),
                    'jitter_seed': rnd.randrange(1 << 30) if rnd.random() < 0.5 else None}
        if fam == 'deadreckon':
            n = rnd.choice([40, 100, 250] + ([600] if big else []))
            world = W.gen_world(rnd, n, allow_kicks=True, magnitudes='nominal', gyr_floor=1e-9)
            n = W.n_ticks_of(world)
            faults = []
            for _ in range(rnd.randint(1, 4)):
                s = rnd.randrange(1, max(2, n - 1))
                faults.append({'kind': 'dropout', 'sensor': rnd.choice([['acc'], ['acc'], ['acc', 'mag'], ['mag']]), 'start': s, 'len': rnd.choice([1, 2, 5, 20, 60])})
            world['faults'] = faults
            return {'family': 'deadreckon', 'world': world, 'gains': {'madgwick': 10 ** rnd.uniform(-2, 0), 'kP': 10 ** rnd.uniform(-1, 0.7),
                    'kI': 10 ** rnd.uniform(-2, 0), 'alpha': 10 ** rnd.uniform(-2, -0.3)}, 'b0': [rnd.gauss(0, 0.05) for _ in range(3)],
                    'dt_call': rnd.random() < 0.5, 'dt_route': rnd.choice(['Dt', 'Dt', 'call', 'mixed', 'attr']), 'late_seed': rnd.randrange(1 << 30)}
        n = rnd.choice([10, 60, 200] + ([600] if big else []))
        world = W.gen_world(rnd, n, allow_kicks=False, noise=False, max_rate=10.0)
        return {'family': 'recorder', 'world': world, 'order': rnd.choice(['H', 'H', 'S'])}

    # ------------------------------------------------------------------
    def run(self, scn):
        boot.set_today(boot.BOOT_ORDINAL)
        boot.seed_library_rng(99)
        log = K.EventLog()
        fam = scn['family']
        viol, stats = [], {'families': {fam: 1}, 'steps': 0}
        if fam == 'const':
            sim = self._const(scn, viol, stats, log)
        elif fam == 'deadreckon':
            sim = self._deadreckon(scn, viol, stats, log)
        else:
            sim = self._recorder(scn, viol, stats, log)
        log.add('viol', [(v['component'], v['symptom'], v['step']) for v in viol])
        sig = f"{fam}|{hash_small(scn)}" if stats['steps'] >= 2 else None
        return {'violations': viol, 'stats': stats, 'digest': log.digest(), 'sig': sig, 'sim_seconds': sim}

    @staticmethod
    def _v(component, symptom, step, detail, trigger='any'):
        return {'component': component, 'symptom': symptom, 'trigger': trigger, 'step': step, 'detail': detail}

    def _const(self, scn, viol, stats, log):
        import ahrs
        dt = scn['dt']
        w = np.array(scn['w'], dtype=float)
        q0u = qm.qnorm(np.array(scn['q0'], dtype=float))
        q0_given = q0u * scn.get('q0_scale', 1.0)          # a non-normalised q0 must be normalised by the class
        n = int(scn['n'])
        route = scn['dt_route']
        kw = {'Dt': dt} if route == 'Dt' else ({'frequency': 1.0 / dt} if route == 'frequency' else {})
        dt_eff = (1.0 / (1.0 / dt)) if route == 'frequency' else dt
        ar = ahrs.filters.AngularRate(**kw)
        x = 0.5 * dt_eff * float(np.linalg.norm(w))
        stats['max_x'] = x
        # 1. closed form, streamed.  With the per-call route the clock may jitter: every step gets its own period and
        #    the truth is q0 exp(w * elapsed / 2) with the accumulated elapsed time.
        q = q0u.copy()
        call = {'dt': dt} if route == 'call' else {}
        jit = None
        if route == 'call' and scn.get('jitter_seed') is not None:
            jr = random.Random(scn['jitter_seed'])
            jit = [dt * jr.choice([0.5, 0.8, 1.0, 1.0, 1.25, 2.0]) for _ in range(n + 1)]
        elapsed = 0.0
        for k in range(1, n + 1):
            if jit is not None:
                call = {'dt': jit[k]}
            elapsed += call.get('dt', dt_eff) if route == 'call' else dt_eff
            q = np.asarray(ar.update(q, w, method='closed', **call), dtype=float)
            truth = qm.qmul(q0u, qm.qexp(w * elapsed))
            err = float(np.abs(q - truth).max())
            stats['max_closed_err_per_step'] = max(stats.get('max_closed_err_per_step', 0.0), err / k)
            log.add('closed', k, q)
            if not err <= 1e-13 * k + 1e-12:
                viol.append(self._v('angular_closed', 'inexact', k, f'tick {k}: |q - q0 exp(w t/2)| = {err:.3g} (allowed {1e-13 * k + 1e-12:.3g}); |w|={np.linalg.norm(w):.4g} dt={dt_eff:.4g} route={route}'))
                break
        stats['steps'] += n
        # 1c. the public first-order prediction steps, iterated with the *same* rate array object as a caller would
        ekf = ahrs.filters.EKF(magnetic_ref=60.0, **kw)
        roleq = ahrs.filters.ROLEQ(magnetic_ref=60.0, **kw)
        w_obj = w.copy()
        qe = q0u.copy()
        qr = q0u.copy()
        ref = q0u.copy()
        for k in range(1, min(n, 60) + 1):
            ref = first_order(ref, w, dt_eff)
            qe = qm.qnorm(np.asarray(ekf.f(qe, w_obj, dt_eff), dtype=float))
            qr = np.asarray(roleq.attitude_propagation(qr, w_obj, dt_eff), dtype=float)
            for comp, val in (('ekf_f', qe), ('roleq_prop', qr)):
                d = float(np.abs(val - ref).max())
                if not d <= 1e-12 * k + 1e-12:
                    viol.append(self._v(comp, 'prediction-step', k, f'step {k} of a constant-rate run: iterated prediction differs from the iterated first-order step by {d:.3g} (rate array reused between calls)'))
                    break
            if viol and viol[-1]['component'] in ('ekf_f', 'roleq_prop'):
                break
        stats['steps'] += 2 * min(n, 60)
        # 1d. the same steps from the identity written as people write it: a list / array of integers
        for qi in ([1, 0, 0, 0], np.array([1, 0, 0, 0]), [0, 0, 1, 0]):
            ref_i = first_order(np.array(qi, dtype=float), w, dt_eff)
            for comp, fn in (('ekf_f', lambda q_: ekf.f(q_, w.copy(), dt_eff)), ('roleq_prop', lambda q_: roleq.attitude_propagation(q_, w.copy(), dt_eff))):
                try:
                    val = qm.qnorm(np.asarray(fn(qi), dtype=float))
                    d = float(np.abs(val - ref_i).max())
                    if not d <= 1e-12:
                        viol.append(self._v(comp, 'prediction-step', 0, f'from the integer-typed prior {qi!r} the prediction differs from the first-order step by {d:.3g}', trigger='integer-prior'))
                except Exception as e:      # noqa: BLE001
                    viol.append(self._v(comp, f'crash:{type(e).__name__}', 0, f'integer-typed prior {qi!r}: {type(e).__name__}: {e}', trigger='integer-prior'))
        # 1b. closed form, batch constructor (needs the period at construction)
        if route != 'call':
            gyr = np.tile(w, (n + 1, 1))
            try:
                Q = np.asarray(ahrs.filters.AngularRate(gyr, q0=q0_given.copy(), **kw).Q)
                for k in range(0, n + 1):
                    truth = qm.qmul(q0u, qm.qexp(w * (k * dt_eff)))
                    err = float(np.abs(Q[k] - truth).max())
                    if not err <= 1e-13 * k + 1e-12:
                        viol.append(self._v('angular_closed', 'inexact-batch', k, f'batch row {k}: |Q - q0 exp(w t/2)| = {err:.3g}; |w|={np.linalg.norm(w):.4g} dt={dt_eff:.4g} q0 scale {scn.get("q0_scale", 1.0)}'))
                        break
                log.add('batch', Q)
            except Exception as e:      # noqa: BLE001
                viol.append(self._v('angular_closed', f'crash:{type(e).__name__}', 0, f'batch constructor raised {type(e).__name__}: {e}'))
        # 1e. series method through the batch constructor: order k must be honoured there too
        if route != 'call':
            gyr = np.tile(w, (min(n, 40) + 1, 1))
            for order in (0, 2, 3, 5):
                try:
                    Qb = np.asarray(ahrs.filters.AngularRate(gyr, q0=q0u.copy(), method='series', order=order, **kw).Q)
                    qs = q0u.copy()
                    for k in range(1, len(gyr)):
                        qs = np.asarray(ar.update(qs, w, method='series', order=order), dtype=float)
                        d = float(np.abs(Qb[k] - qs).max())
                        if not d <= 1e-12:
                            viol.append(self._v('angular_series', 'batch-order', k, f'order {order}: batch row {k} differs from the streamed series step by {d:.3g}', trigger=f'order{order}'))
                            break
                except Exception as e:      # noqa: BLE001
                    viol.append(self._v('angular_series', f'crash:{type(e).__name__}', 0, f'batch series order {order}: {type(e).__name__}: {e}'))
        call = {'dt': dt} if route == 'call' else {}
        # 2. series orders along the closed-form trajectory
        ticks = sorted(set([0, 1, n // 2, n - 1]))
        for k in ticks:
            prior = qm.qmul(q0u, qm.qexp(w * (k * dt_eff)))
            exact = qm.qmul(q0u, qm.qexp(w * ((k + 1) * dt_eff)))
            prev = None
            for order in range(0, 7):
                try:
                    qs = np.asarray(ar.update(prior, w, method='series', order=order, **call), dtype=float)
                except Exception as e:      # noqa: BLE001
                    viol.append(self._v('angular_series', f'crash:{type(e).__name__}', k, f'order {order}: {type(e).__name__}: {e}'))
                    break
                d = float(np.linalg.norm(qs - exact))
                log.add('series', k, order, qs)
                bound = 2.5 * x ** (order + 1) + 1e-14        # floor: a few ulps of the 4x4 products (1e-15 was too tight: 1.09e-15 seen at order 6)
                if d > 1e-13:
                    stats[f'max_series_ratio_order{order}'] = max(stats.get(f'max_series_ratio_order{order}', 0.0), d / x ** (order + 1))
                if not d <= bound:
                    viol.append(self._v('angular_series', 'order-bound', k, f'order {order}: one-step defect {d:.3g} > 2.5 x^{order + 1} = {bound:.3g} (x=|w|dt/2={x:.4g})', trigger=f'order{order}'))
                    break
                if prev is not None and not d <= prev + 1e-14:
                    viol.append(self._v('angular_series', 'not-improving', k, f'order {order} defect {d:.3g} is worse than order {order - 1} defect {prev:.3g} (x={x:.4g})', trigger=f'order{order}'))
                    break
                prev = d
            stats['steps'] += 7
        return n * dt_eff

    def _deadreckon(self, scn, viol, stats, log):
        import ahrs
        world = scn['world']
        dip = world['dip']
        dt = world['dt']
        g = scn['gains']
        b0 = np.array(scn['b0'], dtype=float)
        nodes = [
            ('madgwick_imu', {'gain': g['madgwick']}),
            ('madgwick_marg', {'gain': g['madgwick']}),
            ('mahony_imu', {'k_P': g['kP'], 'k_I': g['kI'], 'b0': list(b0)}),
            ('mahony_marg', {'k_P': g['kP'], 'k_I': g['kI'], 'b0': list(b0)}),
            ('aqua_imu', {'alpha': g['alpha'], 'beta': g['alpha']}),
            ('aqua_marg', {'alpha': g['alpha'], 'beta': g['alpha']}),
            ('roleq', {'frame': 'NED'}),        # a null sample makes ROLEQ.update return its propagation step alone
            ('roleq', {'frame': 'NED', 'weights': [1.0, 0.0]}),     # ... whatever the weights given to the two sensors
            ('roleq', {'frame': 'NED', 'weights': [0.0, 1.0]}),
        ]
        chans = [C.KINDS[k].refs(p, dip) for k, p in nodes]
        hist = W.build(world, chans)
        ekf = ahrs.filters.EKF(Dt=dt, magnetic_ref=float(dip))
        roleq = ahrs.filters.ROLEQ(Dt=dt, magnetic_ref=float(dip))
        hits = 0
        for name, p in nodes:
            kind = C.KINDS[name]
            key = W.chan_key(*kind.refs(p, dip))
            mixed = scn.get('dt_route') == 'mixed'
            p = dict(p, dt_route=('Dt' if mixed else scn.get('dt_route', 'Dt')), dt_call=(False if mixed else scn.get('dt_call', False)))
            inst = kind.make(p, dt, dip)        # route 'call': class-default period, dt is given on every call
            late = random.Random(f"late/{scn.get('late_seed', 0)}/{name}")
            tq = hist.truth[0]
            q = qm.qconj(tq) if kind.conj else tq.copy()
            for k in range(1, hist.n):
                gk, ak, mk = hist.gyr[k], hist.acc[key][k], hist.mag[key][k]
                prev = q
                # route 'mixed': the period comes from the instance, but now and then a late/early sample is announced
                # with an explicit dt for that call only; the next call without dt must use the instance's period again
                dt_used, dt_arg = dt, C.call_dt(p, dt)
                if mixed and late.random() < 0.2:
                    dt_used = dt * late.choice([0.5, 2.0, 3.0])
                    dt_arg = dt_used
                try:
                    q = np.asarray(kind.step(inst, p, prev, gk, ak, mk if 'm' in kind.sensors else None, dt_arg), dtype=float)
                except Exception as e:      # noqa: BLE001
                    viol.append(self._v(name, f'crash:{type(e).__name__}', k, f'tick {k}: {type(e).__name__}: {e}'))
                    break
                stats['steps'] += 1
                if (not np.any(ak) or (name == 'roleq' and not np.any(mk))) and np.any(gk):
                    hits += 1
                    ref = qm.qconj(first_order(qm.qconj(prev), gk, dt_used)) if kind.conj else first_order(prev, gk, dt_used)
                    d = float(np.abs(q - ref).max())
                    stats['max_dead_reckoning_defect'] = max(stats.get('max_dead_reckoning_defect', 0.0), d)
                    log.add('dr', name, k, q)
                    if not d <= TOL_DR:
                        viol.append(self._v(name, 'dead-reckoning-step', k, f'tick {k} (null {"accelerometer" if not np.any(ak) else "magnetometer"} sample{", weights " + str(p["weights"]) if p.get("weights") else ""}): output differs from the normalised first-order step of the previous output by {d:.3g}; gyr={np.array2string(gk, precision=4)} dt={dt}'))
                        break
        # public prediction steps on every tick, from the truth as prior
        for k in range(1, hist.n):
            prior, gk = hist.truth[k - 1], hist.gyr[k]
            ref = first_order(prior, gk, dt)
            wk = np.array(gk, dtype=float)      # a time update written by hand: Jacobian first, then the prediction, one rate array
            ekf.dfdq(wk, dt)
            for comp, val in (('ekf_f', ekf.f(prior.copy(), wk, dt)), ('roleq_prop', roleq.attitude_propagation(prior.copy(), gk, dt))):
                val = np.asarray(val, dtype=float)
                d = float(np.abs(qm.qnorm(val) - ref).max())
                if not d <= TOL_DR:
                    viol.append(self._v(comp, 'prediction-step', k, f'tick {k}: normalised prediction differs from the first-order step by {d:.3g}'))
                    break
            stats['steps'] += 2
        stats['null_acc_steps'] = hits
        log.add('hits', hits)
        return hist.n * dt

    def _recorder(self, scn, viol, stats, log):
        import ahrs
        world = scn['world']
        dt = float(world['dt'])
        Q, Wb, _ = W.truth(world)
        n = len(Q)
        try:
            if scn.get('order') == 'S':
                # the same sequence stored scalar-last: the recovered rates must not depend on the storage order
                w_est = np.asarray(ahrs.QuaternionArray(np.roll(Q, -1, axis=1), order='S').angular_velocities(dt))
            else:
                w_est = np.asarray(ahrs.QuaternionArray(Q.copy()).angular_velocities(dt))
        except Exception as e:          # noqa: BLE001
            viol.append(self._v('recorder', f'crash:{type(e).__name__}', 0, f'{type(e).__name__}: {e}'))
            return n * dt
        if w_est.shape != (n - 1, 3):
            viol.append(self._v('recorder', 'shape', 0, f'angular_velocities returned shape {w_est.shape} for {n} quaternions'))
            return n * dt
        ar = ahrs.filters.AngularRate(Dt=dt)
        q = Q[0].copy()
        theta = float(np.max(np.linalg.norm(Wb, axis=1))) * dt
        for k in range(1, n):
            q = np.asarray(ar.update(q, w_est[k - 1], method='closed'), dtype=float)
            err = qm.rot_angle(q, Q[k])
            bound = 0.05 * k * theta ** 3 + 1e-9
            if err > 1e-10:
                stats['max_roundtrip_ratio'] = max(stats.get('max_roundtrip_ratio', 0.0), err / (k * theta ** 3))
            if not err <= bound:
                viol.append(self._v('recorder', 'round-trip', k, f'tick {k}: re-integrated attitude is {err:.3g} rad from the recorded one (allowed {bound:.3g}; max |w|dt = {theta:.4g})'))
                break
        stats['steps'] += n - 1
        log.add('rec', q)
        return n * dt

    def shrink_spec(self, scn):
        if scn['family'] == 'const':
            return {'ints': [(('n',), 1)], 'resets': [(('q0',), [1.0, 0.0, 0.0, 0.0]), (('q0_scale',), 1.0), (('dt_route',), 'Dt'), (('dt',), 0.01)], 'max_runs': 40}
        return {'lists': [('world', 'faults'), ('world', 'segments')],
                'ints': [(('world', 'segments', '*', 'len'), 1), (('world', 'faults', '*', 'len'), 1)],
                'resets': [(('world', 'noise'), {'acc': 0.0, 'mag': 0.0, 'gyr': 0.0}), (('dt_call',), False)],
                'normalise': lambda c: c if any(s['t'] != 'kick' for s in c['world']['segments']) else None, 'max_runs': 80}


def hash_small(x):
    import hashlib
    import json
    return hashlib.sha256(json.dumps(x, sort_keys=True).encode()).hexdigest()[:12]


CHECK = Check()
