"""C06 -- batch run == sample-by-sample streaming; deterministic; isolated.

One run: 2-5 consumer tasks (real ahrs filter instances, possibly several of the
same class sharing parameter arrays) subscribe to the sensor bus and are stepped
one public call at a time in a seeded interleaving.  Reference model for every
task: the class's own *batch constructor*, run solo on a private copy of the
history that task consumed.  Checked per task:

  refinement   stream[t] == batch.Q[t] for every t (1e-12 absolute), the stream
               having been started from batch.Q[0] ("same initial attitude");
  isolation    the interleaved stream is bit-identical to a solo re-execution of
               the same stream (library RNG restored to the recorded state for
               the one estimator family that draws from it);
  repetition   the batch run repeated gives bit-identical output; for filters whose only
               carried state is the quaternion (Madgwick, AQUA, Fourati, AngularRate) a replay of
               the same samples through the same object gives the first pass again;
  determinism  (runner) whole run re-executed in-process and in a fresh
               interpreter with another PYTHONHASHSEED: equal digests.
"""
import copy
import math
import random
import numpy as np

from .. import boot, world as W, consumers as C, kernel as K
from . import common as CM

TOL = 1e-12
# filters that carry no estimator state besides the quaternion the caller hands back
STATE_FREE = {'madgwick_imu', 'madgwick_marg', 'aqua_imu', 'aqua_marg', 'fourati', 'angular'}
POOL = ['madgwick_imu', 'madgwick_marg', 'mahony_imu', 'mahony_marg', 'ekf_imu', 'ekf_marg', 'ukf',
        'aqua_imu', 'aqua_marg', 'fourati', 'roleq', 'angular', 'oleq', 'flae', 'fkf',
        'complementary_imu', 'complementary_marg']
WEIGHT = {'ekf_marg': 3, 'ukf': 2, 'roleq': 2, 'oleq': 2, 'mahony_marg': 2, 'mahony_imu': 2, 'fkf': 1,
          'complementary_imu': 1, 'complementary_marg': 1}


class Check:
    pid = 'C06'
    level = 'exploration'
    nondeterminism_is_violation = True
    run_timeout = 300
    shrink_timeout = 150
    rule = ('one case = one seeded scenario: world script (rest / constant-rate incl. single-axis and planar / kick segments, '
            'magnitudes, noise), fault list (glitch/scale/stuck/dup, sometimes dropout and NaN-emitting sensor), 2-6 consumer tasks '
            'with swarm-randomised parameters (period given by Dt, by frequency or per call; caller-owned configuration arrays, '
            'possibly shared between instances; subscribers at 1x, 1/2 or 1/3 of the bus rate) and a seeded interleaving (lag '
            'bound, optional starvation); distinct = distinct (interleaving signature, fault pattern, consumer multiset) triple; '
            'non-trivial = at least two tasks actually interleaved or at least one fault fired')
    assumptions = [
        'the reference model is the library\'s own batch constructor run solo on a private copy of the history: equivalence, determinism and isolation are decided, absolute correctness is not',
        'interleaving granularity is one public call (the API is synchronous; no pre-emption inside a call)',
        'the calendar is frozen inside a run (filters built without a magnetic reference read the WMM for "today")',
        'Madgwick is given its gain explicitly on both paths in 90 % of its runs; the remaining runs leave the default to the class, which is where the open known finding C06-madgwick-default-gain lives',
        'equality tolerance 1e-12 absolute per component for stream vs batch (AngularRate batch renormalises through QuaternionArray); bit equality for solo re-execution and repetition',
    ]
    components = {
        'real': ['ahrs.filters.* classes (constructors, update*/estimate methods) imported from /repo working tree', 'numpy global RNG as used by OLEQ/ROLEQ'],
        'stub': ['rigid-body truth and sensor images (ahrs_sim.world)', 'sensor bus + fault injector', 'seeded scheduler', 'calendar (frozen)'],
    }

    def runs(self, tier):
        return 4000 if tier == 'quick' else 60000

    def wall_cap(self, tier):
        return 600 if tier == 'quick' else 6600

    @staticmethod
    def history_sensitive(scn):
        """Some task leaves its magnetic reference to the class (computed from the WMM when the object is built)."""
        return any(c.get('params', {}).get('magnetic_ref') == 'default' or c.get('params', {}).get('ref_default') for c in scn.get('consumers', []))

    def determinism_sample(self, tier):
        return 16 if tier == 'quick' else 96

    # ------------------------------------------------------------------
    def gen(self, seed, tier):
        rnd = random.Random(f'C06/{seed}')
        n = rnd.choice([8, 20, 40, 80, 120]) if tier == 'quick' else rnd.choice([8, 20, 50, 120, 250, 400])
        world = W.gen_world(rnd, n, allow_kicks=True, magnitudes=rnd.choice(['nominal', 'nominal', 'unit', 'decades']))
        kinds = rnd.sample(['glitch', 'scale', 'stuck', 'dup'], rnd.randint(0, 4))
        if rnd.random() < 0.15:
            kinds.append('dropout')         # batch and stream must also agree on how a zeroed sample is handled
        if rnd.random() < 0.1:
            kinds.append('nan')             # ... and on a sensor that emits NaN
        if kinds:
            world['faults'] = W.gen_faults(rnd, world, kinds, max_faults=4)
        pool = [k for k in POOL for _ in range(WEIGHT.get(k, 2))]
        consumers = []
        for _ in range(rnd.randint(2, 5)):
            kind = rnd.choice(pool)
            consumers.append({'kind': kind, 'params': C.gen_params(rnd, kind)})
            if rnd.random() < 0.2 and C.KINDS[kind].streaming:
                consumers[-1]['stride'] = rnd.choice([2, 3])        # a subscriber running at a lower rate
            if rnd.random() < 0.25 and C.KINDS[kind].streaming:
                consumers[-1]['reuse_buffers'] = True                # reads every sample into the same three buffers
            if rnd.random() < 0.12:
                consumers[-1][rnd.choice(['int_am', 'int_all'])] = True   # an integer-typed recording (raw counts)
        # sometimes a second instance of the same class sharing its parameter arrays
        if rnd.random() < 0.4:
            src = rnd.choice(consumers)
            twin = copy.deepcopy(src)
            if rnd.random() < 0.7:
                gid = rnd.randrange(1000)
                src['share'] = twin['share'] = gid
            if rnd.random() < 0.5 and C.KINDS[twin['kind']].streaming:
                twin['stride'] = rnd.choice([s for s in (1, 2, 3) if s != src.get('stride', 1)])   # same class, other rate
            consumers.append(twin)
        return {'world': world, 'consumers': consumers, 'sched_seed': rnd.randrange(1 << 30),
                'lag_bound': rnd.choice([1, 2, 4, 8]), 'starve': rnd.choice([None, None, 0, 1]),
                'rng_seed': rnd.randrange(1 << 30), 'repeat_batch': rnd.random() < 0.3}

    # ------------------------------------------------------------------
    def run(self, scn):
        boot.set_today(boot.BOOT_ORDINAL)
        boot.seed_library_rng(scn['rng_seed'])
        pipe = K.Pipeline(scn).build()
        hist = pipe.hist
        dip = scn['world']['dip']
        viol = []
        stats = {'steps': {}, 'faults_fired': dict(hist.fired), 'refusals': 0, 'crashes': {}, 'mutations': 0,
                 'ticks': hist.n, 'tasks': len(pipe.tasks), 'compared_rows': 0, 'rng_consumer_steps': 0}
        pristine = {'gyr': hist.gyr.copy(), 'acc': {k: v.copy() for k, v in hist.acc.items()},
                    'mag': {k: v.copy() for k, v in hist.mag.items()}}

        own_cfg = {}

        def own_params(task):
            """The application's configuration for this task: the *same* caller-owned arrays (P, b0, weights, q0)
            are handed to every object built from it -- batch, repeated batch, solo stream and (unless the task
            shares its arrays with another instance) the interleaved stream -- as a user would do."""
            if task.idx not in own_cfg:
                if task.spec.get('share') is None:
                    own_cfg[task.idx] = task.cfg
                else:
                    own_cfg[task.idx] = C.make_config(task.spec.get('params', {}))
            p = dict(task.spec.get('params', {}))
            p.update(own_cfg[task.idx])
            return p

        # 1. reference: batch constructor, solo, private copies (decimated to the task's own rate), per-task RNG seed
        def own_history(t):
            st = getattr(t, 'stride', 1)
            g_, a_, m_ = K.typed_history(t.spec, pristine['gyr'], pristine['acc'][t.key], pristine['mag'][t.key])
            return g_[::st].copy(), a_[::st].copy(), m_[::st].copy()

        refs, q_inits = [], []
        for t in pipe.tasks:
            s_i = (scn['rng_seed'] * 31 + t.idx * 7919 + 17) & 0x7FFFFFFF
            np.random.seed(s_i)
            n_own = getattr(t, 'n_own', hist.n)
            dt_own = getattr(t, 'dt', hist.dt)
            g_, a_, m_ = own_history(t)
            b, _ = K.run_batch(t.kind, own_params(t), dt_own, dip, g_, a_, m_)
            if scn.get('repeat_batch'):
                np.random.seed(s_i)
                g_, a_, m_ = own_history(t)
                b2, _ = K.run_batch(t.kind, own_params(t), dt_own, dip, g_, a_, m_)
                if not CM.same_bits(b, b2):
                    viol.append(self._v(t, 'batch-not-repeatable', 0, 'two solo batch runs on equal inputs (same NumPy seed) differ'))
            refs.append((b, s_i))
            if isinstance(b, np.ndarray) and t.kind.recursive and b.ndim == 2 and len(b) == n_own:
                q_inits.append(b[0].copy())
            elif t.kind.recursive:
                # the batch constructor raised: its Q[0] is only known when the configuration fixes it (q0=...)
                q0p = t.spec.get('params', {}).get('q0')
                if q0p is not None and t.kind.q0_route == 'q0':
                    q_inits.append(np.array(q0p, dtype=float) / np.linalg.norm(np.array(q0p, dtype=float)))
                else:
                    tq = hist.truth[0]
                    q_inits.append(np.array([tq[0], -tq[1], -tq[2], -tq[3]]) if t.kind.conj else tq.copy())
                    t.incomparable = True
            else:
                q_inits.append(None)
            if isinstance(b, np.ndarray) and len(b) != n_own:
                viol.append(self._v(t, 'length-mismatch', 0, f'batch returned {len(b)} attitudes for {n_own} samples'))

        # 2. the interleaved streaming simulation on the shared bus
        boot.seed_library_rng(scn['rng_seed'])
        pipe.run(q_inits, scn['sched_seed'], lag_bound=scn.get('lag_bound', 4), starve=scn.get('starve'))
        stats['mutations'] = len(pipe.monitor.mutations)

        # 3. compare
        for t, (b, s_i), q0 in zip(pipe.tasks, refs, q_inits):
            name = t.kind.name
            if isinstance(t, K.BatchTask):
                stats['steps'][name] = stats['steps'].get(name, 0) + 1
                if not CM.same_bits(t.result, b) and not (isinstance(b, np.ndarray) and isinstance(t.result, np.ndarray)
                                                          and CM.max_abs_diff(t.result, b) == 0.0):
                    viol.append(self._v(t, 'interleaved-ne-solo', 0, 'batch constructor run amid other tasks differs from the solo run: ' + self._diff(t.result, b)))
                continue
            stats['steps'][name] = stats['steps'].get(name, 0) + (t.pos - t.first)
            ctor_err = getattr(t, 'ctor_error', None)
            if ctor_err is not None:
                if isinstance(b, np.ndarray):
                    viol.append(self._v(t, 'stream-raises', 0, f'data-less constructor raised {type(ctor_err).__name__}: {ctor_err} while the batch constructor accepted the same configuration'))
                continue
            # 3a. refinement: stream vs batch
            if t.kind.uses_library_rng and not t.kind.recursive:
                # per-sample random start vector: compare in solo mode with the same NumPy seed (same draws, same order)
                solo = self._solo(t, own_params(t), hist, pristine, dip, q0, seed=s_i)
                self._refine(viol, t, solo, b, stats)
            else:
                self._refine(viol, t, t.out, b, stats)
            # 3b. isolation: interleaved vs solo re-execution (RNG restored to the recorded states)
            replay = []
            solo = self._solo(t, own_params(t), hist, pristine, dip, q0, rng_states=t.rng_before, replay=replay)
            if replay:
                k, o1, o2 = replay[0]
                viol.append(self._v(t, 'replay-ne-first-pass', k, f'sample {k}: the same object fed the same samples again from the same initial attitude answers differently: ' + self._diff(o1, o2)))
            for k in range(t.first, t.pos):
                if not CM.same_bits(self._o(t.out[k]), self._o(solo[k])):
                    viol.append(self._v(t, 'interleaved-ne-solo', k, f'tick {k}: output amid other tasks differs from the solo re-execution: ' + self._diff(t.out[k], solo[k])))
                    break
            for o in t.out:
                if isinstance(o, K.Refusal):
                    stats['refusals'] += 1
                elif isinstance(o, K.Crash):
                    stats['crashes'][f'{name}:{o.etype}'] = stats['crashes'].get(f'{name}:{o.etype}', 0) + 1
            if t.kind.uses_library_rng:
                stats['rng_consumer_steps'] += len(t.rng_before)

        fault_sig = tuple(sorted((f['kind'], str(f.get('sensor')), f['start'], f.get('len', 1)) for f in scn['world'].get('faults', [])))
        nontrivial = (len({c for c in pipe.choices if c >= 0}) >= 2) or any(v for k, v in hist.fired.items())
        sig = None
        if nontrivial:
            sig = f"{pipe.interleaving_signature()}|{hash_small(fault_sig)}|{'+'.join(sorted(c['kind'] for c in scn['consumers']))}"
        pipe.log.add('viol', [(v['component'], v['symptom'], v['step']) for v in viol])
        return {'violations': viol, 'stats': stats, 'digest': pipe.log.digest(), 'sig': sig,
                'sim_seconds': hist.n * hist.dt}

    # ------------------------------------------------------------------
    @staticmethod
    def _o(x):
        return x

    def _v(self, t, symptom, step, detail):
        trigger = 'any'
        if t.kind.name.startswith('madgwick') and 'gain' not in t.spec.get('params', {}):
            trigger = 'default-gain'
        return {'component': t.kind.name, 'symptom': symptom, 'trigger': trigger, 'step': step, 'detail': detail,
                'task': t.idx}

    @staticmethod
    def _diff(a, b):
        def d(x):
            if isinstance(x, K.Refusal):
                return f'ValueError({x.msg})'
            if isinstance(x, K.Crash):
                return f'{x.etype}({x.msg})'
            if x is None:
                return 'None'
            return np.array2string(np.asarray(x), precision=17, max_line_width=200, threshold=12)
        return f'{d(a)} vs {d(b)}'

    @staticmethod
    def _healthy(t):
        h = t.hist
        arrs = [h.gyr if 'g' in t.kind.sensors else None, h.acc[t.key] if 'a' in t.kind.sensors else None, h.mag[t.key] if 'm' in t.kind.sensors else None]
        for i, x in enumerate(arrs):
            if x is None:
                continue
            if not np.all(np.isfinite(x)):
                return False
            if i > 0 and not np.all(np.any(x != 0, axis=1)):
                return False
        return True

    def _refine(self, viol, t, out, b, stats):
        n = getattr(t, 'n_own', t.hist.n)
        if isinstance(b, K.Crash) or isinstance(b, K.Refusal):
            stats['batch_raised'] = stats.get('batch_raised', 0) + 1
            if getattr(t, 'incomparable', False):
                # no common initial attitude is defined, so outputs cannot be compared and a numerical breakdown (LinAlgError)
                # may depend on where the run started (C03's subject).  A *refusal* of the whole history is different: if
                # every sample of the history is healthy and streaming accepted them all, the two routes disagree on whether
                # this history has attitudes at all
                if isinstance(b, K.Refusal) and not any(isinstance(o, (K.Crash, K.Refusal)) for o in out) \
                        and all(isinstance(o, np.ndarray) for o in out[t.first:t.pos]) and t.pos >= n and self._healthy(t):
                    viol.append(self._v(t, 'batch-raises', 0, f'batch constructor refused the history with {self._diff(b, None)} although every sample is non-zero and finite and streaming them produced {n - t.first} attitudes'))
                return
            # the batch constructor rejected/crashed on this history: the stream must fail the same way somewhere
            kinds = {type(o).__name__ + ':' + getattr(o, 'etype', '') for o in out if isinstance(o, (K.Crash, K.Refusal))}
            want = type(b).__name__ + ':' + getattr(b, 'etype', '')
            # a single-frame estimator that answers None for a sample it cannot use has refused it too
            declined = (not t.kind.recursive) and isinstance(b, K.Refusal) and any(o is None for o in out[t.first:t.pos])
            if want not in kinds and not declined:
                viol.append(self._v(t, 'batch-raises', 0, f'batch constructor raised {self._diff(b, None)} but streaming the same samples did not'))
            return
        if not isinstance(b, np.ndarray) or len(b) != n:
            return
        for k in range(t.first, n):
            o = out[k]
            if isinstance(o, (K.Crash, K.Refusal)):
                viol.append(self._v(t, 'stream-raises', k, f'tick {k}: streaming raised {self._diff(o, None)} on a sample the batch constructor processed'))
                return
            if o is None:
                if not t.kind.recursive and b.dtype == object:
                    continue
                viol.append(self._v(t, 'stream-ne-batch', k, f'tick {k}: streaming returned None, batch {self._diff(b[k], None)}'))
                return
            stats['compared_rows'] += 1
            try:
                d = CM.max_abs_diff(o, b[k])
            except Exception:       # noqa: BLE001
                d = math.inf
            if not d <= TOL:
                viol.append(self._v(t, 'stream-ne-batch', k, f'tick {k}: |stream-batch|={d:.3g}: ' + self._diff(o, b[k])))
                return

    def _solo(self, t, p, hist, pristine, dip, q0, seed=None, rng_states=None, replay=None):
        """Re-execute task t's stream alone on private copies of its history."""
        st = t.stride
        gyr, acc, mag = K.typed_history(t.spec, pristine['gyr'], pristine['acc'][t.key], pristine['mag'][t.key])
        gyr, acc, mag = gyr[::st].copy(), acc[::st].copy(), mag[::st].copy()
        out = [None] * t.n_own
        try:
            inst = t.kind.make(p, t.dt, dip)
        except Exception as e:      # noqa: BLE001
            return [K.Crash(e)] * t.n_own
        q = None if q0 is None else np.array(q0, dtype=float)
        if seed is not None:
            np.random.seed(seed)
        bufs = None
        for k in range(t.first, t.pos):
            if rng_states is not None and k in rng_states:
                np.random.set_state(rng_states[k])
            g = gyr[k] if 'g' in t.kind.sensors else None
            a = acc[k] if 'a' in t.kind.sensors else None
            m = mag[k] if 'm' in t.kind.sensors else None
            if t.spec.get('reuse_buffers') and not (t.spec.get('int_am') or t.spec.get('int_all')):
                if bufs is None:
                    bufs = [np.zeros(3), np.zeros(3), np.zeros(3)]
                vals = []
                for buf, src in zip(bufs, (g, a, m)):
                    if src is not None:
                        buf[:] = src
                    vals.append(buf if src is not None else None)
                g, a, m = vals
            try:
                r = t.kind.step(inst, p, q, g, a, m, C.call_dt(p, t.dt))
                out[k] = K.out_to_array(r)
                if r is not None and t.kind.recursive:
                    q = r if isinstance(r, np.ndarray) else out[k]
            except np.linalg.LinAlgError as e:
                out[k] = K.Crash(e)
                if t.kind.recursive:
                    break
            except ValueError as e:
                out[k] = K.Refusal(str(e)[:200])
            except Exception as e:      # noqa: BLE001
                out[k] = K.Crash(e)
                if t.kind.recursive:
                    break
        if replay is not None and t.kind.name in STATE_FREE and not t.kind.uses_library_rng:
            # a filter whose only carried state is the quaternion it is handed must answer a replay of the same
            # samples through the *same object*, from the same initial attitude, exactly as the first time
            q = None if q0 is None else np.array(q0, dtype=float)
            for k in range(t.first, t.pos):
                g = gyr[k] if 'g' in t.kind.sensors else None
                a = acc[k] if 'a' in t.kind.sensors else None
                m = mag[k] if 'm' in t.kind.sensors else None
                try:
                    r = t.kind.step(inst, p, q, g, a, m, C.call_dt(p, t.dt))
                    o2 = K.out_to_array(r)
                    if r is not None:
                        q = r if isinstance(r, np.ndarray) else o2
                except Exception as e:      # noqa: BLE001
                    o2 = K.Refusal('') if isinstance(e, ValueError) and not isinstance(e, np.linalg.LinAlgError) else K.Crash(e)
                if not CM.same_bits(out[k], o2):
                    replay.append((k, out[k], o2))
                    break
        return out

    # ------------------------------------------------------------------
    def shrink_spec(self, scn):
        def normalise(c):
            if len(c['consumers']) < 1 or not c['world']['segments']:
                return None
            if not any(s['t'] != 'kick' for s in c['world']['segments']):
                return None
            return c
        return {
            'lists': [('consumers',), ('world', 'faults'), ('world', 'segments')],
            'ints': [(('world', 'segments', '*', 'len'), 1), (('world', 'faults', '*', 'len'), 1), (('lag_bound',), 1)],
            'resets': [(('starve',), None), (('repeat_batch',), False), (('consumers', '*', 'stride'), 1), (('consumers', '*', 'reuse_buffers'), False),
                       (('world', 'noise'), {'acc': 0.0, 'mag': 0.0, 'gyr': 0.0}),
                       (('world', 'g'), 9.81), (('world', 'mscale'), 50.0), (('world', 'dt'), 0.01),
                       (('consumers', '*', 'share'), SHRINK_DELETE),
                       (('consumers', '*', 'params', 'dt_call'), False),
                       (('consumers', '*', 'params', 'dt_route'), 'Dt'),
                       (('consumers', '*', 'params', 'q0'), SHRINK_DELETE),
                       (('consumers', '*', 'params', 'b0'), SHRINK_DELETE),
                       (('consumers', '*', 'params', 'P'), SHRINK_DELETE),
                       (('consumers', '*', 'params', 'weights'), SHRINK_DELETE),
                       (('consumers', '*', 'params', 'noises'), SHRINK_DELETE),
                       (('world', 'q0'), [1.0, 0.0, 0.0, 0.0])],
            'normalise': normalise,
            'max_runs': 250,
        }


from ..shrink import DELETE as SHRINK_DELETE     # noqa: E402


def hash_small(x):
    import hashlib
    return hashlib.sha256(repr(x).encode()).hexdigest()[:8]


CHECK = Check()
