"""C05 -- recursive filters converge to the sensed attitude from any initial orientation.

Bounded liveness.  World: a motionless body at a seeded true attitude; the
gyroscope reads small noise (never exactly zero), accelerometer and
magnetometer read the exact images of the filter's reference directions (the
convention table, DESIGN.md 1.2), scaled by arbitrary positive factors.  The
filter is started e0 in [0, 175] degrees away from the truth through the route
the class itself offers (q0=, w0=, or the first a-priori quaternion).

Oracles over the recorded error history err(t) (rotation angle to the truth;
tilt angle for accelerometer-only variants):
  (a) eventually-always: err(t) <= tol for every t >= budget;
  (b) the final error does not exceed max(initial error, tol);
  (c) the e0 = 0 twin never leaves tol ("stays there"; also the standing
      self-check that the convention table still describes the code).
Budgets and tolerances are a pinned table (c05_table.json) measured once on the
repaired tree over many seeds, used with a x3 margin on the budget and a x10
margin on the steady-state tolerance.
"""
import json
import math
import os
import random
import numpy as np

from .. import boot, world as W, consumers as C, kernel as K, qmath as qm
from . import common as CM

TABLE_PATH = os.path.join(os.path.dirname(os.path.abspath(__file__)), 'c05_table.json')
E0S = [0.0, 5.0, 45.0, 120.0, 175.0]
DTS = [0.002, 0.01, 0.05]
VARIANTS = {
    'madgwick_imu': [{'gain': 0.033}, {'gain': 0.3}, {'gain': 1.0}],
    'madgwick_marg': [{'gain': 0.041}, {'gain': 0.3}, {'gain': 1.0}],
    'mahony_imu': [{}, {'k_P': 3.0, 'k_I': 0.05}, {'k_P': 0.5, 'k_I': 0.1}, {'k_P': 5.0, 'k_I': 0.001}],
    'mahony_marg': [{}, {'k_P': 3.0, 'k_I': 0.05}, {'k_P': 0.5, 'k_I': 0.1}, {'k_P': 5.0, 'k_I': 0.001}],     # last: almost pure P, converges fast enough
                                                                                          # for the quick tier to start it 120-175 degrees away
    'ekf_imu': [{'frame': 'NED'}, {'frame': 'ENU'}, {'frame': 'NED', 'noises': [0.01, 0.09, 0.25]}],
    'ekf_marg': [{'frame': 'NED'}, {'frame': 'ENU'}, {'frame': 'NED', 'noises': [0.01, 0.09, 0.25]}, {'frame': 'ENU', 'magnetic_ref': 'vector'}],
    'ukf': [{}],
    'aqua_imu': [{}, {'alpha': 0.1, 'beta': 0.1}, {'alpha': 0.3, 'beta': 0.3}, {'alpha': 0.1, 'beta': 0.1, 'adaptive': True}],
    'aqua_marg': [{}, {'alpha': 0.1, 'beta': 0.1}, {'alpha': 0.3, 'beta': 0.3}, {'alpha': 0.1, 'beta': 0.1, 'adaptive': True}],
    'roleq': [{'frame': 'NED'}, {'frame': 'ENU'}, {'frame': 'NED', 'weights': [0.5, 0.5]}, {'frame': 'ENU', 'magnetic_ref': 'vector'},
              {'frame': 'NED', 'weights': [1.0, 0.0]}, {'frame': 'ENU', 'weights': [2.0, 0.0]},       # accelerometer-only: judged on tilt
              {'frame': 'NED', 'magnetic_ref': 'default'}, {'frame': 'ENU', 'magnetic_ref': 'default'}],    # the class's own reference (WMM, Munich)
    'complementary_imu': [{}, {'gain': 0.5}, {'gain': 0.98}],
    'complementary_marg': [{}, {'gain': 0.5}, {'gain': 0.98}],
    'fkf': [{}],
}
# filters whose configuration contains arrays: the companion is built from the same array objects
HEADING_MODE = {'madgwick_marg', 'mahony_marg', 'ekf_marg', 'aqua_marg', 'roleq', 'complementary_marg'}
ATTR_ROUTE = {'madgwick_imu': ('gain',), 'madgwick_marg': ('gain',), 'mahony_imu': ('k_P', 'k_I'), 'mahony_marg': ('k_P', 'k_I'),
              'aqua_imu': ('alpha', 'beta'), 'aqua_marg': ('alpha', 'beta')}
SHARED_OBJECT = {'madgwick_imu', 'madgwick_marg', 'aqua_imu', 'aqua_marg'}     # no carried state besides the caller's quaternion
COMPANION_CONFIG = {
    'mahony_imu': {'b0': [0.0, 0.0, 0.0]}, 'mahony_marg': {'b0': [0.0, 0.0, 0.0]},
    'ekf_imu': {'P': [[1.0 if i == j else 0.0 for j in range(4)] for i in range(4)]},
    'ekf_marg': {'P': [[1.0 if i == j else 0.0 for j in range(4)] for i in range(4)]},
    'roleq': {'weights': [1.0, 1.0]},
}
CAL_CAP = 60000          # longest history used while calibrating
MAX_N = 120000


def tol_for(kind, params, dt):
    """Steady-state tolerance [rad] of a filter configuration: a fixed formula, not a measured value.
    Madgwick's normalised gradient step has length gain*dt whatever the error, so its estimate chatters
    around the truth with an amplitude of about 2*gain*dt; every other filter settles far below 5e-3."""
    if kind.startswith('madgwick'):
        return 4.0 * float(params.get('gain', 0.041)) * dt + 2e-3
    if kind == 'fkf':
        return 2e-2
    return 5e-3


def table_key(kind, vi, e0, dt):
    return f'{kind}|{vi}|{e0:g}|{dt:g}'


def load_table():
    try:
        with open(TABLE_PATH) as f:
            return json.load(f)
    except FileNotFoundError:
        return None


_MUNICH = {}


def munich_dip():
    """Inclination of the field the filter classes use when no magnetic reference is given (WMM at Munich on the frozen
    simulated day), asked from the model directly."""
    if 'dip' not in _MUNICH:
        from ahrs.utils.wmm import WMM
        from ahrs.common.constants import MUNICH_LATITUDE, MUNICH_LONGITUDE, MUNICH_HEIGHT
        boot.set_today(boot.BOOT_ORDINAL)
        _MUNICH['dip'] = float(WMM(latitude=MUNICH_LATITUDE, longitude=MUNICH_LONGITUDE, height=MUNICH_HEIGHT).I)
    return _MUNICH['dip']


def error_history(scn, n, with_twin=False):
    """Run the real filter on the motionless history; returns (err[n], e_init, status)."""
    kind = C.KINDS[scn['kind']]
    p = dict(scn['params'])
    dt = scn['dt']
    dip = scn['dip']
    if p.get('magnetic_ref') == 'default':
        dip = munich_dip()          # the world has to be the one the class's default reference describes
    a_ref, m_ref = kind.refs(p, dip)
    key = W.chan_key(a_ref, m_ref)
    spec = {'dt': dt, 'q0': scn['q_true'], 'segments': [{'t': 'rest', 'len': n - 1}], 'g': scn['g'], 'mscale': scn['mscale'],
            'dip': dip, 'noise': {'acc': 0.0, 'mag': 0.0, 'gyr': scn['gyr_noise']}, 'noise_seed': scn['noise_seed'],
            'gyr_floor': float(scn.get('gyr_floor', 1e-7)), 'faults': []}
    hist = W.build(spec, [(a_ref, m_ref)])
    qt = hist.truth[0]
    target = qm.qconj(qt) if kind.conj else qt
    e0 = math.radians(scn['e0_deg'])
    a_meas = hist.acc[key][0]
    a_vec = np.array(a_ref, dtype=float)
    axis = scn['axis']
    if scn.get('axis_mode') in ('heading+', 'heading-') and not kind.tilt_only:
        # a pure heading error (the property quantifies over tilt *and* heading errors): the initial attitude is the
        # truth turned about the vertical, to one side or the other
        up = (a_vec / np.linalg.norm(a_vec)) if kind.conj else (a_meas / np.linalg.norm(a_meas))
        axis = [float(x) for x in (up if scn['axis_mode'] == 'heading+' else -up)]
    q_init = qm.qnorm(qm.qmul(target, qm.axang(axis, e0))) if e0 > 0 else target.copy()

    w_ = scn['params'].get('weights')
    tilt_only = kind.tilt_only or (w_ is not None and float(w_[1]) == 0.0)      # magnetometer weighted out: heading unobservable

    def err_of(q):
        if not isinstance(q, np.ndarray) or q.shape != (4,) or not np.all(np.isfinite(q)) or np.iscomplexobj(q):
            return float('nan')
        if tilt_only:
            r = qm.q2R(qm.qconj(q) if kind.conj else q).T @ a_vec
            return qm.vec_angle(r, a_meas)
        return qm.rot_angle(q, target)

    g, a, m = hist.gyr, hist.acc[key], hist.mag[key]
    errs = np.full(n, np.nan)
    status = 'ok'
    if kind.name == 'fkf' and e0 > 0:
        # FKF has no q0: its initial orientation is the one sensed in the first sample, so the first sample is
        # taken at the initial attitude and every later one at the truth
        Ri = qm.q2R(q_init).T
        a[0] = scn['g'] * (Ri @ np.array(a_ref, dtype=float))
        m[0] = scn['mscale'] * (Ri @ np.array(m_ref, dtype=float))
    if not kind.streaming:
        pp = dict(p)
        if kind.q0_route == 'w0':
            # initial angles (roll, pitch, yaw) of the erroneous attitude, through the package's own conversion
            import ahrs
            pp['w0'] = [float(x) for x in ahrs.Quaternion(q_init).to_angles()]
        if scn.get('int_gyro'):
            # a quiet gyroscope logged as raw integer counts: every reading rounds to 0 (acc / mag stay floating point)
            g = np.zeros(g.shape, dtype=np.int64)
        res, obj = K.run_batch(kind, pp, dt, dip, g, a, m)
        if isinstance(res, np.ndarray) and len(res) == n:
            for k in range(n):
                errs[k] = err_of(np.asarray(res[k]))
        else:
            status = f'raised:{getattr(res, "etype", type(res).__name__)}'
        return errs, err_of(q_init), status
    pp = dict(p)
    if kind.q0_route == 'q0':
        pp['q0'] = [float(x) for x in q_init]
    # a companion instance of the same class, built by the application from the *same* configuration arrays
    # (bias, covariance, weights) but started far from the truth and stepped in between: it must not matter
    comp = None
    g2 = a2 = m2 = None
    if scn.get('shared_obj') and kind.name in SHARED_OBJECT:
        # a second client of the *same* filter object (these classes carry no state besides the quaternion the caller
        # hands back): another sensor at another true attitude, served between the calls of the judged stream
        spec2 = dict(spec, q0=[float(x) for x in qm.qnorm(qm.qmul(np.array(scn['q_true'], dtype=float), qm.axang(scn['axis'][::-1], math.radians(float(scn['shared_obj'])))))],
                     noise_seed=scn['noise_seed'] + 1)
        h2 = W.build(spec2, [(a_ref, m_ref)])
        g2, a2, m2 = h2.gyr, h2.acc[key], h2.mag[key]
    if scn.get('companion') and kind.name in COMPANION_CONFIG:
        cfg = {k: v for k, v in COMPANION_CONFIG[kind.name].items()}
        pp.update({k: v for k, v in cfg.items() if k not in pp})
        shared = C.make_config({k: pp[k] for k in C.CONFIG_ARRAYS if k != 'q0' and pp.get(k) is not None})
        pp.update(shared)
    try:
        if scn.get('other_frame_first') and p.get('magnetic_ref') == 'default':
            # another object of the class, default reference too but in the other local frame, is created first
            kind.make(dict(pp, frame='ENU' if pp.get('frame', 'NED') == 'NED' else 'NED'), dt, dip)
        by_attr = {k_: pp[k_] for k_ in ATTR_ROUTE.get(kind.name, ()) if scn.get('attr_route') and k_ in pp}
        inst = kind.make({k_: v_ for k_, v_ in pp.items() if k_ not in by_attr}, dt, dip)
        for k_, v_ in by_attr.items():
            # the gains are documented attributes: the application sets them on the live object instead of passing them
            # to the constructor
            setattr(inst, k_, v_)
        if scn.get('companion') and kind.name in COMPANION_CONFIG:
            qc = qm.qnorm(qm.qmul(target, qm.axang(scn['axis'][::-1], math.radians(scn['companion']))))
            pc = dict(pp)
            if kind.q0_route == 'q0':
                pc['q0'] = [float(x) for x in qc]
            comp = [kind.make(pc, dt, dip), qc, pc]
        elif g2 is not None:
            comp = [inst, qm.qnorm(qm.qmul(target, qm.axang(scn['axis'][::-1], math.radians(100.0)))), pp]
    except Exception as e:      # noqa: BLE001
        return errs, err_of(q_init), f'raised:{type(e).__name__}'
    q = q_init.copy()
    errs[0] = err_of(q)
    dtc0 = bool(p.get('dt_call', False))
    odd = int(scn.get('odd_dt_tick') or 0)
    for k in range(1, n):
        # one call with an explicit, tiny period (a nearly duplicated time stamp) in a stream that otherwise relies on
        # the period given at construction: that call is next to a no-op and must not change the later ones
        dtc = 1e-6 if k == odd else dtc0
        if comp is not None:
            gc, ac, mc = (g, a, m) if g2 is None else (g2, a2, m2)
            try:
                rc_ = kind.step(comp[0], comp[2], comp[1], gc[k], ac[k] if 'a' in kind.sensors else None,
                                mc[k] if 'm' in kind.sensors else None, dtc0)
                comp[1] = rc_ if (g2 is not None and isinstance(rc_, np.ndarray)) else K.out_to_array(rc_)
            except Exception:       # noqa: BLE001 - the companion's own fate is not judged here
                comp = None
        try:
            r_ = kind.step(inst, pp, q, g[k], a[k] if 'a' in kind.sensors else None,
                           m[k] if 'm' in kind.sensors else None, dtc)
            # with a second client on the same object the application keeps the object it was handed (no copy), as a
            # driver loop does; everywhere else a plain copy
            q = r_ if (g2 is not None and isinstance(r_, np.ndarray)) else K.out_to_array(r_)
        except Exception as e:      # noqa: BLE001
            status = f'raised:{type(e).__name__}@{k}'
            break
        errs[k] = err_of(np.asarray(q, dtype=float).view(np.ndarray) if g2 is not None else q)
        if not math.isfinite(errs[k]):
            status = f'invalid@{k}'
            break
    return errs, errs[0], status


def settle_index(errs, tol):
    """First index from which the error stays <= tol until the end (len(errs) if never)."""
    bad = np.nonzero(~(errs <= tol))[0]
    return 0 if bad.size == 0 else int(bad[-1]) + 1


class Check:
    pid = 'C05'
    level = 'exploration'
    run_timeout = 900
    shrink_timeout = 200
    rule = ('one case = (filter variant incl. gains/frame, dt, initial error e0 in {0,5,45,120,175} deg about a seeded axis, seeded '
            'true attitude, sensor magnitudes, dip, gyro-noise realisation); each case also runs its e0=0 twin; distinct = distinct '
            'scenario value; non-trivial = e0 > 0 (an initial orientation error actually had to be removed)')
    assumptions = [
        'budgets (samples to settle) come from c05_table.json, measured once on the repaired tree over 16 seeds per cell and used with a x3 (+300 samples) margin; steady-state tolerances are fixed formulas (5e-3 rad; 4*gain*dt + 2e-3 for Madgwick, whose normalised step chatters; 2e-2 for FKF); a slowdown inside the margin is missed; cells that need more than 60000 samples on the repaired tree are not exercised (listed in the table as slow)',
        'the convention table (which reference directions each filter assumes, and in which direction its quaternion rotates) is an assumption of this oracle; the e0=0 twin of every run is its standing self-check',
        'gains are drawn from a fixed menu per filter (default and two or three non-default sets), dt from {2,10,50} ms',
        'FKF has no q0: its initial orientation is given through the first sample (taken at the initial attitude, all later samples at the truth)',
        'in a third of the runs a companion instance of the same class, built from the same configuration array objects (Mahony b0, EKF P, ROLEQ weights; the values are the class defaults) but started 90-170 degrees away, is stepped in between: the budgets were measured without it, i.e. it is assumed not to matter',
    ]
    components = {
        'real': ['Madgwick, Mahony, EKF, UKF, AQUA, ROLEQ (streaming update methods, q0 route), Complementary and FKF (batch constructor)', 'ahrs.Quaternion.to_angles (to express the initial attitude for Complementary w0)'],
        'stub': ['motionless rigid body, exact sensor images, gyro noise (ahrs_sim.world)'],
    }

    def __init__(self):
        self.table = load_table()

    def runs(self, tier):
        return 640 if tier == 'quick' else 12000

    def wall_cap(self, tier):
        return 800 if tier == 'quick' else 6600

    def determinism_sample(self, tier):
        return 3 if tier == 'quick' else 24

    def cells(self):
        for kind, vs in VARIANTS.items():
            for vi in range(len(vs)):
                for dt in DTS:
                    for e0 in E0S:
                        yield kind, vi, e0, dt

    def make_scenario(self, rnd, kind, vi, e0, dt):
        params = dict(VARIANTS[kind][vi])
        adaptive = bool(params.get('adaptive'))
        if params.get('magnetic_ref') == 'vector':
            params['mref_scale'] = rnd.choice([1.0, 48.0, 0.3])     # a reference given in physical units is not a unit vector
        return {'kind': kind, 'variant': vi, 'params': params, 'dt': dt, 'e0_deg': e0, 'axis': W.rand_unit(rnd),
                'q_true': W.rand_unit(rnd, 4), 'g': 9.80665 if adaptive else 9.81 * rnd.uniform(0.5, 2.0),
                'mscale': 50.0 * rnd.uniform(0.5, 2.0), 'dip': rnd.choice([-70.0, -45.0, -10.0, 20.0, 45.0, 60.0, 66.0, 75.0]),
                'gyr_noise': 10 ** rnd.uniform(-6, -3.3), 'noise_seed': rnd.randrange(1 << 30),
                'companion': (rnd.choice([90.0, 150.0, 170.0]) if rnd.random() < 0.35 else 0.0),
                **self._extras(rnd, kind, params)}

    @staticmethod
    def _extras(rnd, kind, params):
        """Drawn after everything else so that the older fields of a seed's scenario keep their values."""
        out = {}
        u = rnd.random()
        if u < 0.15:
            out['gyr_noise'] = 10 ** rnd.uniform(-12, -8)       # a very quiet (navigation-grade or simulated) gyroscope
            out['gyr_floor'] = 1e-13
        v_ = rnd.random()
        if v_ < 0.2 and C.KINDS[kind].streaming and not params.get('dt_call'):
            out['odd_dt_tick'] = rnd.randint(2, 6)
        w_ = rnd.random()
        if w_ < 0.3 and kind in SHARED_OBJECT:
            out['shared_obj'] = rnd.choice([60.0, 120.0, 170.0])
        x_ = rnd.random()
        if x_ < 0.25 and kind in ATTR_ROUTE and any(k_ in params for k_ in ATTR_ROUTE[kind]):
            out['attr_route'] = True
        if x_ < 0.3 and kind.startswith('complementary'):
            out['int_gyro'] = True
        if params.get('magnetic_ref') == 'default' and rnd.random() < 0.6:
            out['other_frame_first'] = True
        y_ = rnd.random()
        if y_ < 0.3 and kind in HEADING_MODE:
            out['axis_mode'] = 'heading+' if y_ < 0.15 else 'heading-'
        return out

    def gen(self, seed, tier):
        rnd = random.Random(f'C05/{seed}')
        limit = 3500 if tier == 'quick' else MAX_N
        # every filter gets the same share of the runs: pick the class first, then one of its admissible cells
        for _ in range(400):
            kind = rnd.choice(sorted(VARIANTS))
            cells = [(vi, e0, dt) for k, vi, e0, dt in self.cells() if k == kind]
            rnd.shuffle(cells)
            for vi, e0, dt in cells:
                ent = (self.table or {}).get(table_key(kind, vi, e0, dt))
                if ent is None:
                    continue
                if ent.get('status') == 'slow' and kind not in ('ukf', 'fkf'):
                    continue        # converges, but needs more samples than the calibration cap: not exercised
                if ent.get('status') != 'ok':
                    return self.make_scenario(rnd, kind, vi, e0, dt)   # breaks down on the repaired tree: known findings
                if self.run_length(kind, vi, e0, dt) <= limit:
                    return self.make_scenario(rnd, kind, vi, e0, dt)
        raise RuntimeError('no admissible cell (is c05_table.json present?)')

    def run_length(self, kind, vi, e0, dt):
        """History length of a cell: the 'stays there' clause (e0 = 0) needs no budget."""
        return 1500 if e0 == 0 else self.budget(kind, vi, e0, dt) + 200

    def budget(self, kind, vi, e0, dt):
        """Samples allowed to settle: 3x the largest pinned settle index of this configuration for any initial
        error up to e0, plus half the largest of the whole row (the pinned values come from 16 seeds per cell and
        are not monotone in e0 for every filter), plus 300."""
        row = [(e, (self.table or {}).get(table_key(kind, vi, e, dt))) for e in E0S]
        ok = [(e, int(t['settle'])) for e, t in row if t is not None and t.get('status') == 'ok']
        upto = max([s for e, s in ok if e <= e0], default=0)
        whole = max([s for e, s in ok], default=0)
        return 3 * upto + whole // 2 + 300

    # ------------------------------------------------------------------
    def run(self, scn):
        boot.set_today(boot.BOOT_ORDINAL)
        boot.seed_library_rng(4242)
        kind = C.KINDS[scn['kind']]
        key = table_key(scn['kind'], scn['variant'], scn['e0_deg'], scn['dt'])
        ent = (self.table or {}).get(key)
        key0 = table_key(scn['kind'], scn['variant'], 0.0, scn['dt'])
        ent0 = (self.table or {}).get(key0)
        if ent is None or ent0 is None:
            raise RuntimeError(f'no table entry for {key}')
        log = K.EventLog()
        viol = []
        # 'unbudgeted': the repaired tree itself does not settle within the calibration cap in this cell (known findings)
        trigger = f"e0={scn['e0_deg']:g}|dt={scn['dt']:g}|{'budgeted' if ent.get('status') == 'ok' else 'unbudgeted'}"

        def v(symptom, step, detail):
            return {'component': f"{scn['kind']}", 'symptom': symptom, 'trigger': trigger, 'step': step, 'detail': detail}

        tol = tol_for(scn['kind'], scn['params'], scn['dt'])
        if ent.get('status') == 'ok':
            budget = self.budget(scn['kind'], scn['variant'], scn['e0_deg'], scn['dt'])
            n = scn.get('n') or self.run_length(scn['kind'], scn['variant'], scn['e0_deg'], scn['dt'])
        else:
            budget = None
            n = scn.get('n') or 3000
        errs, e_init, status = error_history(scn, n)
        log.add('errs', errs, status)
        stats = {'cases': {scn['kind']: 1}, 'steps': int(n), 'e0': {f"{scn['e0_deg']:g}": 1}}
        if status != 'ok':
            viol.append(v('raised' if status.startswith('raised') else 'invalid-output', None, f'run stopped: {status} (e0={scn["e0_deg"]} deg, variant {scn["params"]}, dt={scn["dt"]})'))
        else:
            s_idx = settle_index(errs, tol)
            stats['max_settle_ratio'] = (s_idx / budget) if budget else 0.0
            if budget is None:
                # a cell without a budget (no convergence on the fixed tree): judged on the final error only
                if not errs[-1] <= tol:
                    viol.append(v('no-convergence', n - 1, f'after {n} samples the error is {errs[-1]:.4g} rad (tolerance {tol:.3g}); initial error {e_init:.4g} rad; variant {scn["params"]}, dt={scn["dt"]}'))
            elif s_idx > budget:
                where = 'never within the run' if s_idx >= n else f'only from sample {s_idx}'
                viol.append(v('no-convergence' if s_idx >= n else 'slow-convergence', min(s_idx, n - 1),
                              f'error settles below {tol:.3g} rad {where}; budget {budget} samples (pinned settle index {ent["settle"]}); '
                              f'initial error {e_init:.4g} rad, final {errs[-1]:.4g} rad; variant {scn["params"]}, dt={scn["dt"]}'))
            if not errs[-1] <= max(e_init, tol) + 1e-9:
                viol.append(v('final-worse-than-initial', n - 1, f'final error {errs[-1]:.4g} rad exceeds the initial error {e_init:.4g} rad'))
        # (c) the e0 = 0 twin
        if scn['e0_deg'] > 0:
            twin = dict(scn, e0_deg=0.0)
            n0 = min(n, 1500)
            errs0, _, status0 = error_history(twin, n0)
            log.add('twin', errs0, status0)
            stats['steps'] += n0
            if status0 != 'ok':
                viol.append(dict(v('raised' if status0.startswith('raised') else 'invalid-output', None, f'e0=0 twin stopped: {status0}'), trigger='e0=0'))
            elif not np.nanmax(errs0) <= tol:
                k = int(np.nanargmax(errs0))
                viol.append(dict(v('leaves-truth', k, f'started at the truth the estimate drifts to {errs0[k]:.4g} rad (tolerance {tol:.3g}); variant {scn["params"]}, dt={scn["dt"]}'), trigger='e0=0'))
        elif status == 'ok' and not np.nanmax(errs) <= tol:
            k = int(np.nanargmax(errs))
            viol.append(v('leaves-truth', k, f'started at the truth the estimate drifts to {errs[k]:.4g} rad (tolerance {tol:.3g}); variant {scn["params"]}, dt={scn["dt"]}'))
        sig = None
        if scn['e0_deg'] > 0:
            sig = f"{key}|{scn['noise_seed']}|{scn['dip']}"
        log.add('viol', [(x['symptom'], x['step']) for x in viol])
        return {'violations': viol, 'stats': stats, 'digest': log.digest(), 'sig': sig, 'sim_seconds': n * scn['dt']}

    def shrink_spec(self, scn):
        return {'resets': [(('g',), 9.81), (('mscale',), 50.0), (('gyr_noise',), 1e-4), (('dip',), 60.0),
                           (('q_true',), [1.0, 0.0, 0.0, 0.0]), (('axis',), [1.0, 0.0, 0.0]), (('axis',), [0.0, 0.0, 1.0])],
                'max_runs': 20}


CHECK = Check()


# ---------------------------------------------------------------------------
# one-off calibration (run on the repaired tree; result is committed)
# ---------------------------------------------------------------------------
def _cal_cell(args):
    kind, vi, e0, dt, seeds = args
    chk = CHECK
    params = VARIANTS[kind][vi]
    tol = tol_for(kind, params, dt)
    worst_settle, worst_steady, status = 0, 0.0, 'ok'
    notes = []
    for s in range(seeds):
        rnd = random.Random(f'C05cal/{kind}/{vi}/{e0}/{dt}/{s}')
        scn = chk.make_scenario(rnd, kind, vi, e0, dt)
        n = 1500 if e0 == 0 else 3000
        while True:
            errs, e_init, st = error_history(scn, n)
            if st != 'ok':
                status = st.split('@')[0]
                notes.append(st)
                break
            si = settle_index(errs, tol)
            if e0 == 0:
                worst_steady = max(worst_steady, float(np.nanmax(errs)))
                if si > 0:
                    status = 'leaves-truth'
                    notes.append(f'max err {float(np.nanmax(errs)):.3g} > tol {tol:.3g}')
                break
            if si <= 0.5 * n:       # settled in the first half and stayed there for the second half
                worst_settle = max(worst_settle, si)
                worst_steady = max(worst_steady, float(np.nanmax(errs[n // 2:])))
                break
            if n >= CAL_CAP:
                status = 'slow'
                notes.append(f'err {errs[-1]:.3g} after {n} (tol {tol:.3g})')
                break
            n = min(CAL_CAP, n * 3)
        if status != 'ok':
            break
    return table_key(kind, vi, e0, dt), {'settle': worst_settle, 'steady': worst_steady, 'status': status, 'notes': notes[:2], 'tol': tol}


def calibrate(seeds=16, workers=16, only=None):
    import concurrent.futures as cf
    import multiprocessing
    jobs = [(k, vi, e0, dt, seeds) for k, vi, e0, dt in CHECK.cells() if only is None or k in only]
    table = dict(load_table() or {}) if only is not None else {}
    with cf.ProcessPoolExecutor(workers, mp_context=multiprocessing.get_context('fork')) as pool:
        for key, ent in pool.map(_cal_cell, jobs, chunksize=1):
            table[key] = ent
    with open(TABLE_PATH, 'w') as f:
        json.dump(table, f, indent=0, sort_keys=True)
    return table
