"""C03 -- every estimator always returns valid attitudes, one per input sample.

The stateful filters are the genuine simulation target (validity must survive
*histories*: covariance blow-up, drift off the unit sphere, a poisoned bias
after a glitch).  The single-frame estimators are attached to the same bus as
extra subscribers; for them the simulator is only an input source (what the
world, the canonical poses and the glitch fault produce) -- said so in the
evidence.

World: the C06 world with every fault kind except dropout (samples stay
non-zero and acc/mag at least 2 degrees from parallel), magnitudes over several
decades, exact canonical pose segments, swarm-randomised configuration.
Each consumer is run both ways: streamed on the shared bus in a seeded
interleaving, and through its batch constructor.

Oracle after every step and on every batch row: exactly one output per input
sample; real dtype; finite; unit norm within 1e-9 (proper rotation within 1e-9
for matrices; finite triple for angles).  Any exception is a violation (the
inputs are well-formed by construction).
"""
import math
import os
import random
import numpy as np

from .. import boot, world as W, consumers as C, kernel as K, qmath as qm
from . import common as CM

UNIT_TOL = 1e-9
POOL = ['madgwick_imu', 'madgwick_marg', 'mahony_imu', 'mahony_marg', 'ekf_imu', 'ekf_marg', 'ukf',
        'aqua_imu', 'aqua_marg', 'fourati', 'roleq', 'angular', 'angular_integration', 'fkf', 'complementary_imu', 'complementary_marg',
        'oleq', 'flae', 'tilt', 'tilt_acc', 'saam', 'famc', 'fqa', 'quest', 'davenport', 'triad', 'aqua_alg']


def axis_feature(a):
    """'+z', '-x', ... when the vector lies exactly along a body axis, else 'generic'."""
    nz = [i for i in range(3) if a[i] != 0.0]
    if len(nz) == 1:
        return ('+' if a[nz[0]] > 0 else '-') + 'xyz'[nz[0]]
    if len(nz) == 2:
        return 'xyz'[({0, 1, 2} - set(nz)).pop()] + '=0'        # exactly in a coordinate plane (single-axis tilt)
    return 'generic'


def zero_feature(m):
    z = [c for c, x in zip('xyz', m) if x == 0.0]
    return (''.join(z) + '=0') if z else 'generic'


def representation_of(kind, p, arch='batch'):
    if kind.name == 'saam' and arch == 'stream':
        return 'quaternion'     # SAAM.estimate() always returns a quaternion; the option belongs to the constructor
    if kind.name in ('tilt', 'tilt_acc', 'saam', 'triad', 'angular_integration'):
        return p.get('representation', 'rotmat' if kind.name == 'triad' else 'quaternion')
    return 'quaternion'


class Check:
    pid = 'C03'
    level = 'exploration'
    run_timeout = 600
    shrink_timeout = 150
    rule = ('one case = seeded world script (rest/rate/kick/exact canonical pose segments; magnitudes over decades; noise) + fault list '
            '(glitch/scale/stuck/dup, never dropout) + 3-6 consumers with swarm-randomised configuration, each streamed in a seeded '
            'interleaving AND run through its batch constructor; distinct = distinct (interleaving, fault pattern, consumer multiset, world '
            'noise seed); non-trivial = a recursive filter carried state over at least 10 samples, or a fault fired, or a canonical pose was visited')
    assumptions = [
        'inputs are well-formed by construction (finite, non-zero acc/mag rows at least 2 degrees from parallel), so any exception counts as a violation',
        'single-frame estimators (Tilt, SAAM, FAMC, FQA, QUEST, Davenport, FLAE, OLEQ, TRIAD, AQUA algebraic) are pure per-sample functions: for them the simulator is only an input source; the enumerated grid of exact poses x dips x {clean, glitched accelerometer, glitched magnetometer} is plain input enumeration',
        'unit-norm / orthogonality tolerance 1e-9',
        'numpy.linalg.LinAlgError is counted as a crash although it subclasses ValueError',
    ]
    components = {
        'real': ['every class exported by ahrs.filters: streaming methods and batch constructors, all representations offered'],
        'stub': ['rigid-body truth incl. exact canonical poses, sensor images, fault injector, seeded scheduler'],
    }

    def runs(self, tier):
        return 4000 if tier == 'quick' else 40000

    def wall_cap(self, tier):
        return 700 if tier == 'quick' else 6600

    def determinism_sample(self, tier):
        return 4 if tier == 'quick' else 48

    def enumerated(self, tier):
        """Seed-independent grid of exact poses: every canonical pose (also turned to headings 90/180/270) x 5 dips x
        {clean, accelerometer glitched, magnetometer glitched}, seen by every single-frame estimator and variant.
        This is input enumeration (said so in the evidence): it keeps the singular families of the closed-form
        estimators in view on every run instead of leaving them to the luck of a seed."""
        import math
        poses = W.canonical_poses()
        extra = []
        for name, q in poses:
            if name.startswith(('pitch_only', 'roll_only', 'x_', 'y_', 'pitch180')) and (tier != 'quick' or name in ('x_up', 'x_down', 'y_up', 'pitch180', 'pitch_only_23', 'roll_only_41')):
                for h in (90, 180, 270):
                    extra.append((f'{name}@h{h}', qm.qmul(qm.axang([0, 0, 1], math.radians(h)), q)))
        poses = poses + extra
        dips = [-60.0, 0.0, 45.0, 66.0, 80.0] if tier == 'quick' else [-80.0, -60.0, -30.0, 0.0, 25.0, 45.0, 60.0, 66.0, 80.0]
        cons = []
        for k, vs in (('oleq', [{'frame': 'NED'}, {'frame': 'ENU'}, {'frame': 'NED', 'weights': [100.0, 100.0]}, {'frame': 'ENU', 'weights': [1.0, 25.0]},
                               {'frame': 'NED', 'weights': [0.5, 0.5]}, {'frame': 'ENU', 'weights': [0.3, 0.7]}]),      # ... and weights that sum to one ('flae', [{'method': 'symbolic'}, {'method': 'eig'}, {'method': 'newton'}]),
                      ('tilt', [{'representation': 'quaternion'}, {'representation': 'rotmat'}]), ('tilt_acc', [{'representation': 'angles'}]),
                      ('saam', [{}]), ('famc', [{}]), ('fqa', [{}]), ('quest', [{}, {'weights': [1.2, 0.6]}]), ('davenport', [{}]),
                      ('triad', [{'frame': 'NED', 'representation': 'quaternion'}, {'frame': 'ENU', 'representation': 'rotmat'}]), ('aqua_alg', [{}])):
            for v in vs:
                cons.append({'kind': k, 'params': dict(v)})
        out = []
        for (name, q) in poses:
            for dip in dips:
                for pert in ('clean', 'acc', 'acc2', 'acc3', 'mag', 'mag2'):
                    world = {'dt': 0.01, 'q0': [float(x) for x in q], 'segments': [{'t': 'pose', 'q': [float(x) for x in q], 'len': 2, 'name': name}],
                             'g': 9.81, 'mscale': 50.0, 'dip': dip, 'noise': {'acc': 0.0, 'mag': 0.0, 'gyr': 0.0}, 'noise_seed': 1, 'gyr_floor': 0.0, 'faults': []}
                    if pert != 'clean':
                        vec = {'acc': [3.1, -7.7, 4.9], 'acc2': [-6.0, 2.5, -7.2], 'acc3': [0.4, 9.1, 3.3], 'mag': [21.0, 13.0, -37.0], 'mag2': [-30.0, -8.0, 41.0]}[pert]
                        world['faults'] = [{'kind': 'glitch', 'sensor': pert[:3], 'start': 1, 'len': 1, 'vec': vec}]
                    out.append({'world': world, 'consumers': cons, 'sched_seed': 1, 'lag_bound': 1, 'rng_seed': 1})
        # consecutive samples exactly half a turn apart (the two attitudes' quaternions are exactly orthogonal): whatever a
        # batch constructor does *across* rows must survive that
        pd = dict(W.canonical_poses())
        for name in ('level_h0', 'level_h90', 'x_up', 'inverted_h0', 'pitch_only_23', 'roll_only_41'):
            if name not in pd:
                continue
            for ai, ax in enumerate(([1, 0, 0], [0, 1, 0], [0, 0, 1])):
                q1 = pd[name]
                q2 = qm.qmul(q1, qm.axang(ax, math.pi))
                for dip in (0.0, 45.0, 66.0):
                    segs = [{'t': 'pose', 'q': [float(x) for x in q], 'len': 2, 'name': f'{name}{"" if i % 2 == 0 else "+half-turn-" + "xyz"[ai]}'}
                            for i, q in enumerate((q1, q2, q1, q2))]
                    world = {'dt': 0.01, 'q0': [float(x) for x in q1], 'segments': segs, 'g': 9.81, 'mscale': 50.0, 'dip': dip,
                             'noise': {'acc': 0.0, 'mag': 0.0, 'gyr': 0.0}, 'noise_seed': 1, 'gyr_floor': 0.0, 'faults': []}
                    out.append({'world': world, 'consumers': cons, 'sched_seed': 1, 'lag_bound': 1, 'rng_seed': 1})
        # slow loggers: every recursive filter on a fast constant turn sampled at 0.1 / 0.25 / 1 s (seed independent)
        rec = [{'kind': k, 'params': dict(v)} for k, v in (
            ('madgwick_imu', {'gain': 0.033}), ('madgwick_marg', {'gain': 0.041}), ('mahony_imu', {}), ('mahony_marg', {}),
            ('ekf_imu', {'frame': 'NED'}), ('ekf_marg', {'frame': 'NED'}), ('ekf_marg', {'frame': 'ENU'}), ('aqua_imu', {}), ('aqua_marg', {}),
            ('fourati', {}), ('roleq', {'frame': 'NED'}), ('angular', {'method': 'closed'}), ('angular', {'method': 'series', 'order': 3}),
            ('fkf', {}), ('complementary_imu', {}), ('complementary_marg', {}))]
        for dt in (0.1, 0.25, 1.0):
            for rate in (1.0, 3.0, 10.0):
                for ax in ([0.6, -0.48, 0.64], [0.0, 0.0, 1.0]):
                    world = {'dt': dt, 'q0': [0.5, 0.5, -0.5, 0.5], 'segments': [{'t': 'rate', 'len': 300 if tier == 'quick' else 1500, 'w': [rate * x for x in ax]}],
                             'g': 9.81, 'mscale': 50.0, 'dip': 60.0, 'noise': {'acc': 1e-3, 'mag': 1e-3, 'gyr': 1e-3}, 'noise_seed': 7, 'gyr_floor': 0.0, 'faults': []}
                    for c in rec:
                        out.append({'world': world, 'consumers': [c], 'sched_seed': 1, 'lag_bound': 1, 'rng_seed': 1})
        return out

    def gen(self, seed, tier):
        rnd = random.Random(f'C03/{seed}')
        n = rnd.choice([10, 30, 60, 120, 200]) if tier == 'quick' else rnd.choice([10, 40, 120, 400, 1200, 5000])
        mags = rnd.choice(['nominal', 'unit', 'decades', 'decades'])
        world = W.gen_world(rnd, n, allow_kicks=True, allow_poses=True, magnitudes=mags, noise=rnd.random() < 0.6)
        if rnd.random() < (1.0 if os.environ.get('AHRS_SIM_C03_SLOW') else 0.1):
            world['dt'] = rnd.choice([0.1, 0.25, 1.0])      # slow loggers: valid sampling rates, large rotation per step
        kinds = rnd.sample(['glitch', 'scale', 'stuck', 'dup'], rnd.randint(0, 4))
        if kinds:
            world['faults'] = W.gen_faults(rnd, world, kinds, max_faults=5)
        consumers = []
        k_n = rnd.randint(3, 6) if n <= 1200 else 2
        for _ in range(k_n):
            kind = rnd.choice(POOL)
            consumers.append({'kind': kind, 'params': C.gen_params(rnd, kind)})
            if rnd.random() < 0.2 and C.KINDS[kind].streaming:
                consumers[-1]['reuse_buffers'] = True        # driver-style application: one set of sample buffers
            if rnd.random() < 0.12:
                consumers[-1]['int_am'] = True              # accelerometer / magnetometer logged as raw integer counts
            if rnd.random() < 0.2 and len(consumers) < 7:
                # a second object of the same class, configured differently, in the same process
                consumers.append({'kind': kind, 'params': C.gen_params(rnd, kind)})
        return {'world': world, 'consumers': consumers, 'sched_seed': rnd.randrange(1 << 30),
                'lag_bound': rnd.choice([1, 4]), 'rng_seed': rnd.randrange(1 << 30)}

    # ------------------------------------------------------------------
    def run(self, scn):
        boot.set_today(boot.BOOT_ORDINAL)
        boot.seed_library_rng(scn['rng_seed'])
        pipe = K.Pipeline(scn).build()
        hist = pipe.hist
        dip = scn['world']['dip']
        viol = []
        stats = {'steps': {}, 'batch_rows': {}, 'faults_fired': dict(hist.fired), 'pose_ticks': 0, 'representations': {},
                 'ticks': hist.n}
        pose_ticks = [i for i, l in enumerate(hist.labels) if l.startswith('pose:')]
        stats['pose_ticks'] = len(pose_ticks)
        noise_free = not any(scn['world'].get('noise', {}).get(k, 0.0) for k in ('acc', 'mag'))

        clean_pose = noise_free and any(not (hist.fault_mask[k] & ~32) for k in pose_ticks)

        # "slow sampling" = a large rotation per sample somewhere in the history: a slow logger, or a gyroscope glitch that
        # announces more than a radian per step
        big_steps = hist.dt >= 0.1 or float(np.max(np.linalg.norm(hist.gyr, axis=1))) * hist.dt > 1.0

        def trigger_at(t, k):
            """Trigger class of a violation: what is special about the input at that tick.
            Single-frame estimators: features of the (acc, mag) pair itself; recursive filters: the pose label."""
            if not t.kind.recursive:
                a, m = handed(t)
                if k is None:
                    feats = sorted({axis_feature(a[i]) for i in range(hist.n)} - {'generic'})
                    if noise_free and any(float(np.min(np.abs(hist.truth[i]))) < 1e-9 for i in range(hist.n)):
                        feats.append('special-attitude')
                    mfeats = sorted({'m' + zero_feature(m[i]) for i in range(hist.n)} - {'mgeneric'})
                    return 'history-has:' + (','.join(feats + mfeats) if feats or mfeats else 'none')
                exact = (noise_free and not (hist.fault_mask_am[k] & (1 | 2 | 8))    # scale, dup and kick keep the images consistent
                         and k not in hist.fixed_rows.get(t.key, ()))
                af = axis_feature(a[k])
                if af == 'generic' and exact and float(np.min(np.abs(hist.truth[k]))) < 1e-9:
                    # the samples look generic but the attitude itself is special: one quaternion component is exactly
                    # zero (reached by turning about a body axis or in a body plane from a canonical pose)
                    af = 'special-attitude'
                return f"acc:{af}|mag:{zero_feature(m[k])}|{'exact' if exact else 'perturbed'}"
            if k is None:
                # a batch constructor that raised does not say at which row: say whether exact poses were in the history
                return ('slow-sampling:' if big_steps else '') + ('history-with-exact-pose' if clean_pose else 'generic')
            slow = 'slow-sampling:' if big_steps else ''
            lab = hist.labels[k] if k < len(hist.labels) else ''
            if lab.startswith('pose:') and noise_free and not (hist.fault_mask[k] & ~32):
                return slow + lab
            return slow + 'generic'

        _handed = {}

        def handed(t):
            """The accelerometer / magnetometer arrays this task is actually given (integer counts for 'int_am' tasks)."""
            if t.idx not in _handed:
                a, m = hist.acc[t.key], hist.mag[t.key]
                if t.spec.get('int_am'):
                    ia, im = K.int_counts(a), K.int_counts(m)
                    a, m = (a if ia is None else ia), (m if im is None else im)
                _handed[t.idx] = (a, m)
            return _handed[t.idx]

        def antipodal(t, k, prev):
            """True when the attitude the filter held before sample k predicts gravity (almost) exactly opposite to the
            accelerometer sample: the 180-degree tilt error at which every such filter has its unstable equilibrium."""
            try:
                if k is None or prev is None or not t.kind.recursive or 'a' not in t.kind.sensors:
                    return False
                prev = np.asarray(prev, dtype=float)
                if prev.shape != (4,) or not np.all(np.isfinite(prev)):
                    return False
                a_ref, _ = t.kind.refs(t.p, scn['world']['dip'])
                pred = qm.q2R(qm.qconj(prev) if t.kind.conj else prev).T @ np.array(a_ref, dtype=float)
                if qm.vec_angle(pred, hist.acc[t.key][k]) > math.radians(179.0):
                    return True
                # ... or a half-turn away from the sensed attitude altogether (e.g. heading error of exactly 180 degrees)
                target = qm.qconj(hist.truth[k]) if t.kind.conj else hist.truth[k]
                if qm.rot_angle(prev, target) > math.radians(179.0):
                    return True
                if t.kind.name in ('aqua_marg', 'aqua_imu'):
                    # AQUA corrects the tilt only partly (gain alpha) before it looks at the magnetometer, so "exactly opposite
                    # in heading" has to be judged in *its* intermediate frame: eqs. 44-54 re-done here (own arithmetic) only to
                    # say whether the sample falls on the 0/0 of eq. 47 (gz = -1) or eq. 58 (ly = 0, lx < 0)
                    gk = np.asarray(hist.gyr[k], dtype=float)
                    qi = qm.qnorm(prev - 0.5 * t.dt_eff * qm.qmul(np.r_[0.0, gk], prev)) if np.any(gk) else prev       # AQUA's Omega(w) q
                    a_ = np.asarray(hist.acc[t.key][k], dtype=float)
                    gx, gy, gz = qm.q2R(qi).T @ (a_ / np.linalg.norm(a_))
                    if gz + 1.0 < 1e-12:
                        return True
                    if t.kind.name == 'aqua_marg':
                        qa = np.array([math.sqrt((gz + 1) / 2), -gy / math.sqrt(2 * (gz + 1)), gx / math.sqrt(2 * (gz + 1)), 0.0])
                        alpha = float(getattr(t.inst, 'alpha', 0.01)) if getattr(t, 'inst', None) is not None else float(t.p.get('alpha', 0.01))
                        qa = qm.qnorm((1 - alpha) * np.array([1.0, 0, 0, 0]) + alpha * qa)      # close enough to slerp_I for a frame estimate
                        m_ = np.asarray(hist.mag[t.key][k], dtype=float)
                        lx, ly, _ = qm.q2R(qm.qnorm(qm.qmul(qi, qa))).T @ (m_ / np.linalg.norm(m_))
                        if lx < 0 and abs(ly) < 1e-7 * abs(lx):
                            return True
                # ... or exactly opposite in heading once the tilt is taken out: the twist of the attitude error about the
                # vertical (swing-twist decomposition) is a half-turn
                if 'm' in t.kind.sensors:
                    av = np.array(a_ref, dtype=float)
                    am = np.asarray(hist.acc[t.key][k], dtype=float)
                    u = (av / np.linalg.norm(av)) if t.kind.conj else (am / np.linalg.norm(am))
                    E = qm.qmul(qm.qconj(target), prev)
                    twist = 2.0 * math.atan2(abs(float(E[1:] @ u)), abs(float(E[0])))
                    return twist > math.radians(179.0)
                return False
            except Exception as e:       # noqa: BLE001
                import os
                if os.environ.get('AHRS_SIM_DEBUG'):
                    import traceback; traceback.print_exc()
                return False

        def v(t, symptom, k, detail, arch, prev=None):
            trig = trigger_at(t, k)
            if antipodal(t, k, prev):
                trig = 'antipodal:' + trig
            return {'component': t.kind.name, 'symptom': symptom, 'trigger': trig, 'step': k, 'detail': f'[{arch}] ' + detail, 'task': t.idx}

        # streams start at the truth (a valid attitude); single-frame tasks have no state
        q_inits = []
        for t in pipe.tasks:
            tq = hist.truth[0]
            q_inits.append((qm.qconj(tq) if t.kind.conj else tq.copy()) if t.kind.recursive else None)
        pipe.run(q_inits, scn['sched_seed'], lag_bound=scn.get('lag_bound', 4))
        carried = 0
        for t in pipe.tasks:
            name = t.kind.name
            rep = representation_of(t.kind, t.p)
            rep_s = representation_of(t.kind, t.p, 'stream')
            stats['representations'][f'{name}:{rep}'] = stats['representations'].get(f'{name}:{rep}', 0) + 1
            if isinstance(t, K.StreamTask):
                ce = getattr(t, 'ctor_error', None)
                if ce is not None:
                    viol.append(v(t, f'crash:{type(ce).__name__}', None, f'data-less constructor raised {type(ce).__name__}: {ce}', 'stream'))
                else:
                    stats['steps'][name] = stats['steps'].get(name, 0) + (t.pos - t.first)
                    if t.kind.recursive:
                        carried = max(carried, t.pos - t.first)
                    for k in range(t.first, hist.n):
                        raw = t.raw[k] if k < len(t.raw) else None
                        if isinstance(raw, np.ndarray) and isinstance(t.out[k], np.ndarray) and raw.shape == t.out[k].shape \
                                and not np.array_equal(np.asarray(raw), t.out[k], equal_nan=True):
                            # the application kept the object it was handed at tick k: a later call changed it
                            d = CM.attitude_defect(np.array(raw, dtype=float), rep_s, UNIT_TOL)
                            if d is not None:
                                viol.append(v(t, 'kept-attitude-' + CM.defect_class(d), k, f'the attitude object returned at tick {k} was valid then and is {d} at the end of the run: {np.array2string(np.asarray(raw), precision=6)} (a later call wrote into it)', 'stream'))
                                break
                    for k in range(t.first, hist.n):
                        o = t.out[k]
                        if isinstance(o, K.Refusal):
                            viol.append(v(t, 'crash:ValueError', k, f'tick {k}: ValueError on a well-formed sample: {o.msg}', 'stream'))
                            break
                        if isinstance(o, K.Crash):
                            viol.append(v(t, f'crash:{o.etype}', k, f'tick {k}: {o.etype}: {o.msg}', 'stream'))
                            break
                        d = CM.attitude_defect(o, rep_s, UNIT_TOL)
                        if d is not None:
                            viol.append(v(t, CM.defect_class(d), k, f'tick {k}: output {d}: {np.array2string(np.asarray(o), precision=6, threshold=12)} for acc={self._row(handed(t)[0], k)} mag={self._row(handed(t)[1], k)}', 'stream',
                                          prev=(t.out[k - 1] if k >= 1 and isinstance(t.out[k - 1], np.ndarray) else None)))
                            break
            # batch constructor on a private copy of the same history
            np.random.seed((scn['rng_seed'] + t.idx) & 0x7FFFFFFF)
            p = dict(t.spec.get('params', {}))
            if t.kind.q0_route == 'q0' and 'q0' not in p and t.kind.recursive and t.idx % 2 == 0:
                pass        # leave the class's own initialisation from the first sample in play half of the time
            res, obj = K.run_batch(t.kind, p, hist.dt, dip, hist.gyr.copy(), handed(t)[0].copy(), handed(t)[1].copy())
            if isinstance(res, K.Refusal):
                viol.append(v(t, 'crash:ValueError', None, f'batch constructor raised ValueError on a well-formed history: {res.msg}', 'batch'))
            elif isinstance(res, K.Crash):
                viol.append(v(t, f'crash:{res.etype}', None, f'batch constructor raised {res.etype}: {res.msg}', 'batch'))
            else:
                stats['batch_rows'][name] = stats['batch_rows'].get(name, 0) + len(res)
                if len(res) != hist.n:
                    viol.append(v(t, 'length', None, f'{len(res)} attitudes for {hist.n} samples (shape {res.shape})', 'batch'))
                else:
                    if res.dtype == object:
                        viol.append(v(t, 'returned-none', None, 'batch output is an object array (some rows are None)', 'batch'))
                    else:
                        for k in range(hist.n):
                            d = CM.attitude_defect(res[k], rep, UNIT_TOL)
                            if d is not None:
                                viol.append(v(t, CM.defect_class(d), k, f'row {k}: {d}: {np.array2string(np.asarray(res[k]), precision=6, threshold=12)} for acc={self._row(handed(t)[0], k)} mag={self._row(handed(t)[1], k)}', 'batch',
                                              prev=(res[k - 1] if k >= 1 and rep == 'quaternion' else None)))
                                break
        pipe.log.add('viol', [(x['component'], x['symptom'], x['step']) for x in viol])
        fired = any(hist.fired.values())
        sig = None
        if carried >= 10 or fired or pose_ticks:
            import hashlib
            import json as _json
            wh = hashlib.sha256(_json.dumps(scn['world'], sort_keys=True).encode()).hexdigest()[:10]
            sig = f"{pipe.interleaving_signature()}|{wh}|{'+'.join(sorted(c['kind'] for c in scn['consumers']))}"
        return {'violations': viol, 'stats': stats, 'digest': pipe.log.digest(), 'sig': sig, 'sim_seconds': hist.n * hist.dt}

    @staticmethod
    def _row(arr, k):
        return np.array2string(arr[k], precision=5) if k is not None and k < len(arr) else '?'

    def shrink_spec(self, scn):
        from ..shrink import DELETE

        def normalise(c):
            if len(c['consumers']) < 1 or not any(s['t'] != 'kick' for s in c['world']['segments']):
                return None
            return c
        return {'lists': [('consumers',), ('world', 'faults'), ('world', 'segments')],
                'ints': [(('world', 'segments', '*', 'len'), 1), (('world', 'faults', '*', 'len'), 1)],
                'resets': [(('world', 'noise'), {'acc': 0.0, 'mag': 0.0, 'gyr': 0.0}), (('world', 'g'), 9.81), (('world', 'mscale'), 50.0),
                           (('world', 'dt'), 0.01), (('consumers', '*', 'params', 'q0'), DELETE),
                           (('consumers', '*', 'params', 'dt_call'), False), (('consumers', '*', 'params', 'dt_route'), 'Dt')],
                'normalise': normalise, 'max_runs': 200}


CHECK = Check()
