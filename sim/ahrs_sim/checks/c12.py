"""C12 -- NaN gaps are filled along the shortest geodesic; sign jumps are removed (partial claim).

Only the part of the property with a fault pattern in it is claimed: a recorder
node stores an attitude sequence (the truth of a turning body) through a lossy
link whose faults are *loss* (row -> NaN; a *torn* row loses only some of its four
components) and *signflip* (row -> -row); the
repair stage is the real QuaternionArray.slerp_nan / remove_jumps (and
get_nan_intervals underneath).  SLERP geometry is checked on the endpoint pairs
and weights the repair produces (both package SLERPs, the gap's weights and the
two end weights 0 and 1 in one call); arbitrary weight vectors in isolation are
input generation and are not claimed.  A record may begin with lost rows
(warm-up; those rows are not judged) and may be hit by a second burst of losses
after it has been repaired once (same object, repaired again).

Level: fault_enumeration -- for N <= 10 (quick) / 14 (thorough) every interior
loss mask x 4 spin rates x 5 sign-flip patterns, plus seeded long records.

Reference model: a 15-line shortest-arc constant-speed SLERP (ahrs_sim.qmath).
Oracles: valid rows come back bit-identical up to sign; each filled row is the
reference interpolant at weight j/(L+1) (1e-5 rad: the LERP shortcut's own
error at its threshold) and has unit norm; negating an endpoint changes no
rotation; a loss-free record passes through unchanged; after remove_jumps on a
NaN-free record consecutive rows have non-negative dot product and every row
is +- the original.
"""
import itertools
import math
import random
import numpy as np

from .. import boot, world as W, kernel as K, qmath as qm

FILL_TOL = 1e-5
RATES = [0.01, 0.5, 1.5, 2.6]          # |w| dt per tick [rad]: nearly equal ... beyond 120 degrees per sample
FLIPS = ['none', 'alternate', 'first', 'tail', 'random']


def fill_tol(pa, pb):
    """Allowed rotation-angle error of an interpolant between pa and pb.  The linear shortcut taken for nearly equal
    endpoints (|dot| > 0.9995) is off by at most 0.25 phi^3 (phi: angle between the endpoints on the 3-sphere; measured
    over 4000 pairs, plus 1e-15 of rounding), which is 8e-6 rad at the threshold and next to nothing for close endpoints;
    the spherical formula is exact to rounding."""
    phi = 0.5 * qm.rot_angle(pa, pb)
    if abs(float(np.dot(pa, pb))) > 0.9994:
        return min(FILL_TOL, 0.5 * phi ** 3 + 1e-12)
    return 1e-9


def record(scn):
    """The stored sequence: truth of a constant-rate turn, with sign flips and losses applied."""
    n = scn['n']
    q0 = qm.qnorm(np.array(scn['q0'], dtype=float))
    w = np.array(scn['w'], dtype=float)
    if scn.get('ortho'):
        # exactly orthogonal neighbours: the record walks through the four basis quaternions (half-turns)
        basis = np.eye(4)
        order = scn['ortho']
        Q = np.array([basis[order[k % len(order)]] for k in range(n)])
    elif 'world' in scn:
        Q, _, _ = W.truth(scn['world'])
    else:
        Q = np.array([qm.qmul(q0, qm.qexp(w * (k * scn['dt']))) for k in range(n)])
    Q = np.array(Q, dtype=float)
    sent = Q.copy()
    for i in scn['flips']:
        sent[i] = -sent[i]
    lossy = sent.copy()
    for i in scn['loss']:
        lossy[i] = np.nan
    return Q, sent, lossy


def torn_components(scn, i):
    """Which components of lost row i are NaN: all four, or (torn row) a seeded non-empty subset."""
    if not scn.get('torn'):
        return [0, 1, 2, 3]
    r = random.Random(f"torn/{scn['torn']}/{i}")
    if r.random() < 0.5:
        return [0, 1, 2, 3]
    return sorted(r.sample([0, 1, 2, 3], r.randint(1, 3)))


class Check:
    pid = 'C12'
    level = 'fault_enumeration'
    exhaustive = True
    run_timeout = 120
    shrink_timeout = 60
    rule = ('one case = (record length N, spin rate |w|dt in {0.01,0.5,1.5,2.6} rad/tick, sign-flip pattern in {none, alternate, first, tail, random}, '
            'interior loss mask, optionally with torn rows that lose only some components); every interior loss mask is enumerated for N <= 10 (quick) / 14 (thorough), plus seeded long records with random '
            'loss runs; distinct = distinct (N, rate, flip pattern, mask); non-trivial = at least one row lost or flipped')
    assumptions = [
        'partial claim: the free function slerp() on arbitrary endpoint pairs and weight vectors is input generation and is not decided here; only the endpoint pairs and weights that the repair of a lossy record produces',
        'the last row of a record is never lost and lost leading rows are not judged (the property speaks of interior NaN runs); a leading run must leave the repair of the interior gaps intact',
        'second repair round: 1-3 further interior rows are lost after an in-place repair of the same object and the repair is called again (every third case as inplace=False, every second case after a preview call)',
        'fill tolerance: 0.5 phi^3 + 1e-12 rad for endpoints the linear shortcut serves (phi = their angle on the 3-sphere, twice the measured worst case, at most 1e-5 rad), 1e-9 rad otherwise; unit norm 1e-9',
        'sign flips are judged as rotations: a filled row may be the negative of the reference interpolant',
        'a record whose consecutive true rows are more than 180 degrees of rotation apart has no well-defined sign continuity: spin rates stay below pi rad per tick',
    ]
    components = {
        'real': ['ahrs.QuaternionArray (constructor, slerp_nan, remove_jumps)', 'ahrs.common.quaternion.slerp', 'ahrs.utils.core.get_nan_intervals'],
        'stub': ['rigid-body truth (constant-rate turn)', 'lossy recorder link: loss and signflip fault injector', 'reference SLERP (ahrs_sim.qmath.slerp_ref)'],
    }

    def runs(self, tier):
        return 300 if tier == 'quick' else 20000

    def wall_cap(self, tier):
        return 600 if tier == 'quick' else 6600

    def determinism_sample(self, tier):
        return 3 if tier == 'quick' else 16

    # ------------------------------------------------------------------
    def _flip_list(self, name, n, rnd):
        if name == 'none':
            return []
        if name == 'alternate':
            return list(range(1, n, 2))
        if name == 'first':
            return [0]
        if name == 'tail':
            return list(range(n // 2, n))
        return sorted(rnd.sample(range(n), rnd.randint(1, n)))

    def enumerated(self, tier):
        out = []
        nmax = 10 if tier == 'quick' else 14
        rnd = random.Random('C12/enum')
        axis = [0.3, -0.5, 0.81]
        axis = [x / math.sqrt(sum(a * a for a in axis)) for x in axis]
        for n in range(3, nmax + 1):
            interior = list(range(1, n - 1))
            masks = [list(c) for r in range(len(interior) + 1) for c in itertools.combinations(interior, r)]
            for rate in (RATES + [1e-6, 1e-8] if n in (4, 7) else RATES):       # nearly equal endpoints: a body that barely turns
                for fl in FLIPS:
                    flips = self._flip_list(fl, n, random.Random(f'C12/flip/{n}/{rate}'))
                    for mask in masks:
                        out.append({'n': n, 'q0': [0.5, -0.5, 0.5, 0.5], 'w': [rate * x for x in axis], 'dt': 1.0, 'loss': mask, 'flips': flips,
                                    'flip_pattern': fl, 'rate': rate})
                        if mask and fl in ('none', 'tail') and n <= 8:
                            out.append(dict(out[-1], torn=n * 100 + len(out) % 97))       # same mask, some lost rows only torn
                        if mask and fl == 'none' and rate == 0.5 and n >= 6:
                            base = out[-2] if 'torn' in out[-1] else out[-1]
                            out.append(dict(base, second=len(out)))                       # a second burst of losses on the same object
                            if min(mask) >= 3:
                                out.append(dict(base, lead=2))                            # the record begins with two lost rows
                        if fl in ('tail', 'first', 'none') and rate in (0.01, 0.5) and n in (5, 8) and len(mask) <= 1:
                            for rows in (1, n + 2):
                                out.append(dict(out[-1] if False else {'n': n, 'q0': [0.5, -0.5, 0.5, 0.5], 'w': [rate * x for x in axis], 'dt': 1.0, 'loss': mask,
                                                'flips': flips, 'flip_pattern': fl, 'rate': rate}, via_dcm={'rows': rows, 'method': 'shepperd'}))
        # records whose consecutive rows are *exactly* orthogonal (dot product 0.0): walks through basis quaternions
        for n in range(3, min(nmax, 7) + 1):
            interior = list(range(1, n - 1))
            masks = [list(c) for r in range(1, len(interior) + 1) for c in itertools.combinations(interior, r)]
            for order in ([0, 3], [0, 1, 2, 3], [3, 2], [1, 0, 2]):
                for fl in ('none', 'alternate'):
                    flips = self._flip_list(fl, n, rnd)
                    for mask in masks:
                        out.append({'n': n, 'q0': [1.0, 0.0, 0.0, 0.0], 'w': [0.0, 0.0, 0.0], 'dt': 1.0, 'loss': mask, 'flips': flips,
                                    'flip_pattern': fl, 'rate': 3.15, 'ortho': order})
        return out

    def gen(self, seed, tier):
        rnd = random.Random(f'C12/{seed}')
        n = rnd.choice([5, 12, 40, 150]) if tier == 'quick' else rnd.choice([5, 20, 100, 500, 2000])
        rate = rnd.choice(RATES + [10 ** rnd.uniform(-3, 0.4), 3.0, 3.1, 10 ** rnd.uniform(-9, -4)])       # ... down to a body that barely turns
        loss = set()
        for _ in range(rnd.randint(0, max(1, n // 5))):
            s = rnd.randrange(1, n - 1)
            ln = rnd.choice([1, 1, 2, 3, 5, 10, 30])
            loss.update(range(s, min(n - 1, s + ln)))
        fl = rnd.choice(FLIPS)
        return {'n': n, 'q0': W.rand_unit(rnd, 4), 'w': [rate * x for x in W.rand_unit(rnd)], 'dt': 1.0, 'loss': sorted(loss),
                'flips': self._flip_list(fl, n, rnd), 'flip_pattern': fl, 'rate': rate, 'torn': rnd.choice([0, 0, rnd.randrange(1, 1 << 20)]),
                'lead': rnd.choice([0, 0, 0, 1, 2]) if n >= 12 else 0, 'second': rnd.choice([0, rnd.randrange(1, 1 << 20)]),
                'via_dcm': ({'rows': rnd.choice([1, 2, n - 1, n + 3, 2 * n]), 'method': rnd.choice(['shepperd', 'hughes', 'chiaverini', 'itzhack', 'sarabandi'])}
                            if rate < 2.0 and rnd.random() < 0.25 else None)}

    # ------------------------------------------------------------------
    def run(self, scn):
        import ahrs
        boot.seed_library_rng(5)
        log = K.EventLog()
        viol = []
        n = scn['n']
        Q, sent, lossy = record(scn)
        lead = list(range(0, int(scn.get('lead', 0))))       # a record that begins with lost rows (sensor warm-up): those rows are not
        lost = sorted(set(scn['loss']) - set(lead))          # judged, but they must not disturb the repair of the interior gaps
        valid = [i for i in range(n) if i not in set(lost) and i not in set(lead)]
        trigger = ('no-loss' if not lost else 'loss') + ('+flips' if scn['flips'] else '')
        stats = {'cases': 1, 'rows': n, 'rows_lost': len(lost), 'rows_flipped': len(scn['flips']), 'gaps': 0, 'filled_rows_checked': 0,
                 'lerp_branch': 0, 'slerp_branch': 0}

        def v(component, symptom, step, detail):
            return {'component': component, 'symptom': symptom, 'trigger': trigger, 'step': step, 'detail': detail}

        # what the recorder actually holds: the constructor normalises every row (documented, versors=True)
        via = scn.get('via_dcm')

        def load():
            """The record as the recorder object holds it before any loss."""
            if not via:
                return ahrs.QuaternionArray(sent.copy())
            # the recorder stores rotation matrices; they are loaded into an *existing* QuaternionArray object (which held
            # 'rows' placeholder rows before) with from_DCM, the link's sign flips are applied afterwards
            qa_ = ahrs.QuaternionArray(np.tile([1.0, 0.0, 0.0, 0.0], (int(via['rows']), 1)))
            qa_.from_DCM(np.array([qm.q2R(x) for x in Q]), method=via['method'])
            for i in scn['flips']:
                qa_.array[i] *= -1.0
            return qa_
        stored = np.array(load().array, dtype=float)

        def build():
            qa = load()
            tgt = qa.array if via else qa
            for i in lost:
                for c in torn_components(scn, i):       # a torn row has lost only some of its components
                    tgt[i, c] = np.nan
            for i in lead:
                tgt[i] = np.nan
            return qa

        # --- slerp_nan, both calling conventions
        results = {}
        for inplace in (False, True):
            try:
                qa = build()
                ret = qa.slerp_nan(inplace=inplace)
                results[inplace] = np.array(qa.array if inplace else ret, dtype=float)
                if inplace and ret is not None:
                    viol.append(v('slerp_nan', 'inplace-return', 0, 'slerp_nan(inplace=True) returned a value'))
            except Exception as e:      # noqa: BLE001
                viol.append(v('slerp_nan', f'crash:{type(e).__name__}', 0, f'slerp_nan(inplace={inplace}) on a record with {len(lost)} lost rows{" and a leading run of " + str(len(lead)) if lead else ""} raised {type(e).__name__}: {e}'))
        if False in results and True in results and results[False].shape == results[True].shape:
            if not np.array_equal(results[False], results[True], equal_nan=True):
                viol.append(v('slerp_nan', 'inplace-differs', 0, 'inplace=True and inplace=False give different records'))
        R = results.get(False)
        if R is not None and not viol:
            log.add('filled', R)
            if R.shape != (n, 4):
                viol.append(v('slerp_nan', 'shape', 0, f'shape {R.shape} for {n} rows'))
            else:
                for i in valid:
                    if not (R[i].tobytes() == stored[i].tobytes() or R[i].tobytes() == (-stored[i]).tobytes()):
                        viol.append(v('slerp_nan', 'valid-row-changed', i, f'valid row {i} came back as {R[i]} (stored {stored[i]})'))
                        break
                # consecutive valid rows of the repaired record must not be separated by a sign jump
                if scn['rate'] < math.pi:
                    for i in valid[:-1]:
                        if i + 1 in set(valid) and float(R[i] @ R[i + 1]) < -1e-12:
                            viol.append(v('slerp_nan', 'jump-left', i + 1, f'after slerp_nan the valid rows {i} and {i + 1} have dot product {float(R[i] @ R[i + 1]):.6f} (true consecutive rows are {scn["rate"]:.3g} rad of rotation apart)'))
                            break
                # gaps
                gaps = []
                for i in lost:
                    if gaps and gaps[-1][-1] == i - 1:
                        gaps[-1].append(i)
                    else:
                        gaps.append([i])
                gaps = [gp for gp in gaps if gp[0] - 1 >= len(lead)]     # a judged gap has a valid row on its left
                stats['gaps'] = len(gaps)
                for gap in gaps:
                    if viol:
                        break
                    a, b = gap[0] - 1, gap[-1] + 1
                    L = len(gap)
                    pa, pb = stored[a], stored[b]
                    tol = fill_tol(pa, pb)
                    if abs(float(pa @ pb)) > 0.9995:
                        stats['lerp_branch'] += 1
                    else:
                        stats['slerp_branch'] += 1
                    # the same endpoints and weights through the package's other SLERP (ahrs.common.orientation.slerp)
                    try:
                        import ahrs.common.orientation as ORI
                        import ahrs.common.quaternion as QMOD
                        tfull = np.linspace(0, 1, L + 2)           # the gap's weights and the two endpoints (weights 0 and 1) in one call
                        for fname, fn in (('orientation.slerp', ORI.slerp), ('quaternion.slerp', QMOD.slerp)):
                            alt = np.asarray(fn(pa.copy(), pb.copy(), tfull.copy()), dtype=float)
                            for j in range(0, L + 2):
                                ref = qm.slerp_ref(pa, pb, j / (L + 1.0))
                                if not np.all(np.isfinite(alt[j])) or abs(float(alt[j] @ alt[j]) - 1.0) > 1e-9 or not qm.rot_angle(alt[j], ref) <= tol:
                                    viol.append(v(fname, 'off-geodesic', gap[min(max(j, 1), L) - 1], f'{fname} at weight {j}/{L + 1} between {pa} and {pb} (dot {float(pa @ pb):.6g}) gives {alt[j]}, the shortest-arc interpolant is {ref}'))
                                    break
                            else:
                                # one call is one path: consecutive interpolants do not change sign (endpoints not exactly orthogonal)
                                steps = np.einsum('ij,ij->i', alt[1:], alt[:-1])
                                if abs(float(pa @ pb)) > 1e-9 and np.any(steps < -1e-12):
                                    k = int(np.argmin(steps))
                                    viol.append(v(fname, 'jump-in-path', gap[min(max(k, 1), L) - 1], f'{fname} between {pa} and {pb} (dot {float(pa @ pb):.6g}): the interpolants at weights {k}/{L + 1} and {k + 1}/{L + 1} have dot product {steps[k]:.6f}'))
                            if viol:
                                break
                        stats['alt_slerp_rows_checked'] = stats.get('alt_slerp_rows_checked', 0) + 2 * (L + 2)
                    except Exception as e:      # noqa: BLE001
                        viol.append(v('orientation.slerp', f'crash:{type(e).__name__}', gap[0], f'{type(e).__name__}: {e}'))
                    if viol:
                        break
                    for j, i in enumerate(gap, start=1):
                        row = R[i]
                        stats['filled_rows_checked'] += 1
                        if not np.all(np.isfinite(row)):
                            viol.append(v('slerp_nan', 'nan-left', i, f'row {i} of the gap {a + 1}..{b - 1} is still {row}'))
                            break
                        nr = math.sqrt(float(row @ row))
                        if abs(nr - 1.0) > 1e-9:
                            viol.append(v('slerp_nan', 'norm', i, f'filled row {i} has norm {nr:.12g}'))
                            break
                        ref = qm.slerp_ref(pa, pb, j / (L + 1.0))
                        d = qm.rot_angle(row, ref)
                        stats['max_fill_error_rad'] = max(stats.get('max_fill_error_rad', 0.0), d)
                        if not d <= tol:
                            viol.append(v('slerp_nan', 'off-geodesic', i, f'filled row {i} (weight {j}/{L + 1} between rows {a} and {b}, endpoint dot {float(pa @ pb):.6f}) is {d:.3g} rad from the shortest-arc interpolant: {row} vs {ref}'))
                            break
                        # same hemisphere as the first endpoint's representative chosen by the repair: lies on the minor arc
                        if min(qm.rot_angle(row, pa), qm.rot_angle(row, pb)) > qm.rot_angle(pa, pb) + 1e-9:
                            viol.append(v('slerp_nan', 'not-on-minor-arc', i, f'filled row {i} is farther from both endpoints than they are from each other'))
                            break
        # --- a second burst of losses on the *same* object after the first repair: repaired like the first
        if not viol and lost and not lead and scn.get('second') and scn['rate'] < math.pi:
            try:
                qa = build()
                if scn['second'] % 2:
                    qa.slerp_nan(inplace=False)                  # a preview first, then the in-place call
                qa.slerp_nan(inplace=True)
                first = np.array(qa.array, dtype=float)
                r2 = random.Random(f"second/{scn['second']}")
                lost2 = sorted(r2.sample(range(1, n - 1), min(n - 2, r2.randint(1, 3))))
                for i in lost2:
                    (qa.array if via else qa)[i] = np.nan
                R2 = np.array(qa.slerp_nan(inplace=False), dtype=float) if scn['second'] % 3 == 0 else None
                if R2 is None:
                    qa.slerp_nan(inplace=True)
                    R2 = np.array(qa.array, dtype=float)
                log.add('second', R2)
                if not np.all(np.isfinite(R2)):
                    bad = int(np.nonzero(~np.isfinite(R2).all(axis=1))[0][0])
                    viol.append(v('slerp_nan', 'nan-left', bad, f'second repair of the same object (rows {lost2} lost after the first repair): row {bad} is still NaN'))
                else:
                    valid2 = [i for i in range(n) if i not in set(lost2)]
                    for i in lost2:
                        a_, b_ = max(j for j in valid2 if j < i), min(j for j in valid2 if j > i)
                        ref = qm.slerp_ref(first[a_], first[b_], (i - a_) / float(b_ - a_))
                        if not qm.rot_angle(R2[i], ref) <= fill_tol(first[a_], first[b_]):
                            viol.append(v('slerp_nan', 'off-geodesic', i, f'second repair of the same object: row {i} is {qm.rot_angle(R2[i], ref):.3g} rad from the interpolant of rows {a_} and {b_}'))
                            break
                    for i in valid2:
                        if not viol and not (R2[i].tobytes() == first[i].tobytes() or R2[i].tobytes() == (-first[i]).tobytes()):
                            viol.append(v('slerp_nan', 'valid-row-changed', i, f'second repair of the same object changed valid row {i}'))
                stats['second_rounds'] = stats.get('second_rounds', 0) + 1
            except Exception as e:      # noqa: BLE001
                viol.append(v('slerp_nan', f'crash:{type(e).__name__}', 0, f'second repair of the same object raised {type(e).__name__}: {e}'))
        # --- remove_jumps on the NaN-free record (the link only flipped signs)
        try:
            qa = load()
            qa.remove_jumps()
            J = np.array(qa.array, dtype=float)
            log.add('jumps', J)
            for i in range(n):
                if not (J[i].tobytes() == stored[i].tobytes() or J[i].tobytes() == (-stored[i]).tobytes()):
                    viol.append(v('remove_jumps', 'row-changed', i, f'row {i} is no longer +- the stored row'))
                    break
            else:
                dots = np.einsum('ij,ij->i', J[1:], J[:-1])
                bad = np.nonzero(dots < -1e-12)[0]
                if bad.size and scn['rate'] < math.pi:
                    i = int(bad[0]) + 1
                    viol.append(v('remove_jumps', 'jump-left', i, f'after remove_jumps rows {i - 1} and {i} still have dot product {dots[i - 1]:.6f} (true consecutive rows are {scn["rate"]:.3g} rad of rotation apart)'))
        except Exception as e:          # noqa: BLE001
            viol.append(v('remove_jumps', f'crash:{type(e).__name__}', 0, f'{type(e).__name__}: {e}'))
        nontrivial = bool(lost) or bool(scn['flips'])
        sig = f"{n}|{scn['rate']}|{scn.get('ortho')}|{scn.get('flip_pattern')}|{lost}|{scn.get('torn', 0)}|{(scn.get('via_dcm') or {}).get('rows', '')}{(scn.get('via_dcm') or {}).get('method', '')}|{scn.get('lead', 0)}|{scn.get('second', 0)}|{scn['flips'] if scn.get('flip_pattern') == 'random' else ''}|{scn['q0'][0]:.6f}" if nontrivial else None
        log.add('viol', [(x['component'], x['symptom'], x['step']) for x in viol])
        return {'violations': viol, 'stats': stats, 'digest': log.digest(), 'sig': sig, 'sim_seconds': float(n) * scn['dt']}

    def shrink_spec(self, scn):
        return {'lists': [('loss',), ('flips',)], 'resets': [(('q0',), [1.0, 0.0, 0.0, 0.0])], 'max_runs': 120}


CHECK = Check()
