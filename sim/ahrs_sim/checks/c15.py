"""C15 -- WMM answers depend only on (date, place, frame), not on call path or history.

A WMM object is a long-lived server with mutable state (date, coefficient
tables that are rescaled in place on every evaluation).  Simulated clients issue
seeded operation sequences against a pool of 1-3 instances -- construct (date
as float / int / datetime.date / None), magnetic_field with an explicit date,
with date=None (keep the instance's date), with the date omitted (default),
reset_coefficients, reassignment of the frame attribute, glitched queries (non-finite
place, answer not judged), element reads -- interleaved
with *calendar faults*:
clock jumps forwards and backwards by days to years, biased to straddle
2019-12-31/2020-01-01, 2024-12-31/2025-01-01 and tenth-of-year rounding
boundaries, and to happen between "import" (boot date) and first use.

Reference model (single copy, trivial inside): per instance the effective date
and frame; the expected elements of an operation are those of a *fresh*
instance evaluated through the one canonical route (explicit decimal date given
to magnetic_field).  Step invariants: H, F, I, D follow from X, Y, Z by the
documented formulas; the ENU triple is (Y, X, -Z) of the NED twin; +180 == -180;
finite at the poles; whatever the constructor accepts yields numbers, not None.
"""
import datetime as _real_datetime
import math
import random
import numpy as np

from .. import boot, kernel as K

ELEMS = ['X', 'Y', 'Z', 'H', 'F', 'I', 'D', 'GV']
RTOL = 1e-9
BOUNDARY_DATES = [(2019, 12, 31), (2020, 1, 1), (2024, 12, 31), (2025, 1, 1), (2015, 1, 1), (2029, 12, 30)]
MIN_ORD = _real_datetime.date(2015, 1, 2).toordinal()
MAX_ORD = _real_datetime.date(2029, 12, 30).toordinal()


def dec_of_ordinal(o):
    d = _real_datetime.date.fromordinal(o)
    return d.year + d.timetuple().tm_yday / 365.0


def close(a, b, scale):
    return abs(a - b) <= RTOL * max(abs(a), abs(b), scale)


class Check:
    pid = 'C15'
    level = 'exploration'
    run_timeout = 300
    shrink_timeout = 120
    rule = ('one case = a seeded sequence of up to 40 operations (construct / magnetic_field with explicit, kept, or omitted date / '
            'reset_coefficients / read / calendar jump) on a pool of 1-3 WMM instances; distinct = distinct operation sequence; '
            'non-trivial = some instance answered at least two queries (history) or the calendar jumped (fault)')
    assumptions = [
        'the reference is the package\'s own evaluator on a fresh object through one canonical route: path/history independence is decided; an error common to every path is C14\'s subject and invisible here',
        'a decimal date given to either entry point means that decimal year; a datetime.date means year + day-of-year/365 (the package\'s own definition); an omitted or None date at construction or reset means today\'s simulated date; date=None on the method keeps the instance\'s date; an omitted date on the method means today',
        'comparison tolerance 1e-9 relative (floor 1e-6 nT / 1e-9 deg)',
        'no I/O fault is injected: the property promises nothing about a failed coefficient read; reads are only counted',
    ]
    components = {
        'real': ['ahrs.utils.wmm.WMM: constructor, magnetic_field, reset_coefficients, magnetic_elements', 'package-data reads through pkgutil.get_data (counted)'],
        'stub': ['calendar (datetime shim bound into ahrs.utils.wmm at import; simulated today, jumps)', 'single-copy reference model of (effective date, frame)'],
    }

    def runs(self, tier):
        return 3000 if tier == 'quick' else 100000

    def wall_cap(self, tier):
        return 600 if tier == 'quick' else 6600

    def determinism_sample(self, tier):
        return 4 if tier == 'quick' else 32

    # ------------------------------------------------------------------
    @staticmethod
    def _gen_date(rnd, allow=('float', 'date', 'none', 'int')):
        k = rnd.choice(allow)
        if k == 'float':
            r = rnd.random()
            if r < 0.3:
                base = rnd.choice([2020.0, 2025.0, 2015.0])
                v = base + rnd.choice([-1, 1]) * rnd.choice([1e-9, 0.001, 0.0499, 0.05, 0.0501, 0.1])
            elif r < 0.6:
                v = rnd.randint(2015, 2029) + rnd.choice([0.05, 0.15, 0.25, 0.35, 0.45, 0.55, 0.65, 0.75, 0.85, 0.95]) + rnd.choice([0.0, 1e-9, -1e-9])
            else:
                v = rnd.uniform(2015.0, 2029.99)
            v = min(max(v, 2015.0), 2029.99)
            return {'kind': 'float', 'v': v}
        if k == 'int':
            return {'kind': 'int', 'v': rnd.randint(2015, 2029)}
        if k == 'date':
            if rnd.random() < 0.4:
                y, m, d = rnd.choice(BOUNDARY_DATES)
                o = _real_datetime.date(y, m, d).toordinal()
            else:
                o = rnd.randint(MIN_ORD, MAX_ORD)
            return {'kind': 'date', 'ord': o}
        return {'kind': k}

    @staticmethod
    def _gen_place(rnd):
        lat = rnd.choice([0.0, 0, 90.0, -90.0, 45.0, -55.0, 55.0, 56.0, -56.0, rnd.uniform(-90, 90), rnd.uniform(-90, 90)])
        lon = rnd.choice([0.0, 0, 180.0, -180.0, 90.0, rnd.uniform(-180, 180), rnd.uniform(-180, 180)])
        h = rnd.choice([0.0, 0, -1.0, 850.0, rnd.uniform(-1, 850), rnd.uniform(0, 10)])
        return lat, lon, h

    def gen(self, seed, tier):
        rnd = random.Random(f'C15/{seed}')
        n_inst = rnd.randint(1, 3)
        ops = []
        if rnd.random() < 0.35:
            ops.append({'op': 'jump', 'to': self._jump_target(rnd)})        # between import and first use
        created = set()
        for _ in range(rnd.randint(3, 40 if tier != 'quick' else 25)):
            r = rnd.random()
            i = rnd.randrange(n_inst)
            if i not in created or r < 0.15:
                lat, lon, h = self._gen_place(rnd)
                ops.append({'op': 'new', 'i': i, 'date': self._gen_date(rnd), 'lat': lat, 'lon': lon, 'h': h, 'frame': rnd.choice(['NED', 'NED', 'ENU']),
                            'defaults': rnd.random() < 0.15})
                created.add(i)
                earlier = [o for o in ops[:-1] if o['op'] == 'new' and not o.get('defaults')]
                if earlier and not ops[-1]['defaults'] and rnd.random() < 0.3:
                    # a second object built through the constructor for the same date and place as an earlier one,
                    # in the other frame (or the same): objects share nothing
                    o = rnd.choice(earlier)
                    ops[-1].update({'date': dict(o['date']), 'lat': o['lat'], 'lon': o['lon'], 'h': o['h'],
                                    'frame': rnd.choice(['ENU' if o['frame'] == 'NED' else 'NED', o['frame']])})
            elif r < 0.65:
                lat, lon, h = self._gen_place(rnd)
                ops.append({'op': 'field', 'i': i, 'date': self._gen_date(rnd, ('float', 'date', 'keep', 'keep', 'omit', 'int')), 'lat': lat, 'lon': lon, 'h': h})
                if rnd.random() < 0.12:
                    ops[-1]['h_omit'] = True
            elif r < 0.72:
                ops.append({'op': 'reset', 'i': i, 'date': self._gen_date(rnd, ('float', 'date', 'none'))})
            elif r < 0.76:
                # the date is moved with reset_date alone; the next query keeps the object's date
                ops.append({'op': 'reset_date', 'i': i, 'date': self._gen_date(rnd, ('float', 'date', 'none'))})
                lat, lon, h = self._gen_place(rnd)
                ops.append({'op': 'field', 'i': i, 'date': {'kind': 'keep'}, 'lat': lat, 'lon': lon, 'h': h})
            elif r < 0.82:
                ops.append({'op': 'read', 'i': i})
            elif r < 0.88:
                ops.append({'op': 'frame', 'i': i, 'frame': rnd.choice(['NED', 'ENU', 'enu', 'ned'])})     # the documented attribute is reassigned
            elif r < 0.91:
                # a glitched query (non-finite place): its own answer is not judged, but it must not poison the object
                ops.append({'op': 'badquery', 'i': i, 'what': rnd.choice(['lat', 'h', 'lon']), 'value': rnd.choice(['nan', 'inf'])})
            else:
                ops.append({'op': 'jump', 'to': self._jump_target(rnd)})
        return {'ops': ops}

    @staticmethod
    def _jump_target(rnd):
        r = rnd.random()
        if r < 0.4:
            y, m, d = rnd.choice(BOUNDARY_DATES[:4])
            return _real_datetime.date(y, m, d).toordinal() + rnd.choice([-1, 0, 0, 1])
        if r < 0.6:
            # a tenth-of-year rounding boundary: day-of-year/365 close to x.x5
            y = rnd.randint(2015, 2029)
            doy = int(round(365 * rnd.choice([0.05, 0.15, 0.25, 0.35, 0.45, 0.55, 0.65, 0.75, 0.85, 0.95]))) + rnd.choice([-1, 0, 1])
            return min(MAX_ORD, max(MIN_ORD, _real_datetime.date(y, 1, 1).toordinal() + doy - 1))
        if r < 0.8:
            return boot.BOOT_ORDINAL + rnd.choice([-1, 1]) * rnd.choice([1, 7, 30, 200, 400])
        return rnd.randint(MIN_ORD, MAX_ORD)

    # ------------------------------------------------------------------
    def run(self, scn):
        from ahrs.utils.wmm import WMM
        boot.set_today(boot.BOOT_ORDINAL)
        boot.seed_library_rng(7)
        c0 = boot.counters()
        log = K.EventLog()
        viol = []
        stats = {'ops': {}, 'jumps': 0, 'evaluations': 0, 'places': {'lat0': 0, 'lon0': 0, 'pole': 0, 'lon180': 0}, 'routes': {}}
        inst = {}           # i -> WMM
        model = {}          # i -> {'date': dec or None, 'frame':, 'expected': {...} or None, 'queries': n}
        jumped = False
        boot_dec = dec_of_ordinal(boot.BOOT_ORDINAL)

        def v(symptom, step, detail, trigger='any'):
            return {'component': 'wmm', 'symptom': symptom, 'trigger': trigger, 'step': step, 'detail': detail}

        def to_arg(d):
            if d['kind'] in ('float', 'int'):
                return d['v']
            if d['kind'] == 'date':
                return _real_datetime.date.fromordinal(d['ord'])
            return None

        def dec_of(d):
            if d['kind'] in ('float', 'int'):
                return float(d['v'])
            if d['kind'] == 'date':
                return dec_of_ordinal(d['ord'])
            return dec_of_ordinal(boot.today_ordinal())         # none / omit -> today

        def reference(dec, lat, lon, h, frame):
            ref = WMM(frame=frame)
            ref.magnetic_field(float(lat), float(lon), float(h), date=float(dec))
            return {k: float(getattr(ref, k)) for k in ELEMS}

        def place_stats(lat, lon):
            if lat == 0:
                stats['places']['lat0'] += 1
            if lon == 0:
                stats['places']['lon0'] += 1
            if abs(lat) == 90:
                stats['places']['pole'] += 1
            if abs(lon) == 180:
                stats['places']['lon180'] += 1

        def check_elements(step, w, m, lat, lon, h, route):
            """Compare the instance's elements with the model; returns False to stop the run."""
            got = {k: getattr(w, k, None) for k in ELEMS}
            log.add('elems', step, [None if x is None else float(x) for x in got.values()])
            stats['evaluations'] += 1
            if any(x is None for x in got.values()):
                viol.append(v('none-result', step, f'{route} at lat={lat} lon={lon} h={h}: magnetic elements are None (nothing was computed)', trigger=f"{'lat0' if lat == 0 else ''}{'lon0' if lon == 0 else ''}" or 'other'))
                return False
            got = {k: float(x) for k, x in got.items()}
            if not all(math.isfinite(x) for x in got.values()):
                viol.append(v('nonfinite', step, f'{route} at lat={lat} lon={lon} h={h}: {got}', trigger='pole' if abs(lat) == 90 else 'other'))
                return False
            exp = reference(m['date'], lat, lon, h, m['frame'])
            m['expected'] = exp
            scale = {'X': 1e3, 'Y': 1e3, 'Z': 1e3, 'H': 1e3, 'F': 1e3, 'I': 1.0, 'D': 1.0, 'GV': 1.0}
            bad = [k for k in ELEMS if not close(got[k], exp[k], scale[k])]
            if bad:
                k = bad[0]
                viol.append(v('mismatch', step, f'{route} for date {m["date"]:.6f} at lat={lat} lon={lon} h={h} frame={m["frame"]}: {k}={got[k]:.9g} but a fresh object asked for the same (date, place, frame) gives {exp[k]:.9g} (differs in {bad})', trigger=route))
                return False
            # invariants on the instance's own numbers
            X, Y, Z = got['X'], got['Y'], got['Z']
            H = math.hypot(X, Y)
            inv = {'H': H, 'F': math.hypot(H, Z), 'I': math.degrees(math.atan2(Z, H)), 'D': math.degrees(math.atan2(Y, X))}
            for k, val in inv.items():
                if not close(got[k], val, scale[k]):
                    viol.append(v('inconsistent', step, f'{k}={got[k]:.9g} does not follow from X, Y, Z ({val:.9g})'))
                    return False
            if m['frame'] == 'ENU':
                ned = reference(m['date'], lat, lon, h, 'NED')
                for k, val in (('X', ned['Y']), ('Y', ned['X']), ('Z', -ned['Z'])):
                    if not close(got[k], val, 1e3):
                        viol.append(v('enu-ned', step, f'ENU {k}={got[k]:.9g} is not the NED twin\'s component {val:.9g}'))
                        return False
            if abs(lon) == 180:
                other = reference(m['date'], lat, -lon, h, m['frame'])
                for k in ('X', 'Y', 'Z'):
                    if not abs(got[k] - other[k]) <= 1e-6 * max(1e3, abs(got[k])):
                        viol.append(v('lon180', step, f'{k} at lon={lon} is {got[k]:.9g} but {other[k]:.9g} at lon={-lon}'))
                        return False
            return True

        for step, op in enumerate(scn['ops']):
            kind = op['op']
            stats['ops'][kind] = stats['ops'].get(kind, 0) + 1
            log.add('op', step, kind)
            try:
                if kind == 'jump':
                    prev_ord = boot.today_ordinal()
                    boot.set_today(min(MAX_ORD, max(MIN_ORD, int(op['to']))))
                    stats['calendar_days_jumped'] = stats.get('calendar_days_jumped', 0) + abs(boot.today_ordinal() - prev_ord)
                    jumped = jumped or boot.today_ordinal() != boot.BOOT_ORDINAL
                    stats['jumps'] += 1
                    continue
                i = op['i']
                if kind == 'new':
                    d = op['date']
                    if op.get('defaults'):
                        w = WMM(to_arg(d)) if d['kind'] != 'none' else WMM()
                        from ahrs.common.constants import MUNICH_LATITUDE, MUNICH_LONGITUDE, MUNICH_HEIGHT
                        lat, lon, h, frame = MUNICH_LATITUDE, MUNICH_LONGITUDE, MUNICH_HEIGHT / 1000, 'NED'
                    else:
                        lat, lon, h, frame = op['lat'], op['lon'], op['h'], op['frame']
                        w = WMM(to_arg(d), latitude=lat, longitude=lon, height=h, frame=frame)
                    inst[i] = w
                    model[i] = {'date': dec_of(d), 'frame': frame, 'expected': None, 'queries': 1}
                    route = f"constructor({d['kind']})"
                    stats['routes'][route] = stats['routes'].get(route, 0) + 1
                    place_stats(lat, lon)
                    if not check_elements(step, w, model[i], lat, lon, h, route):
                        break
                elif i not in inst:
                    continue
                elif kind == 'field':
                    d = op['date']
                    w, m = inst[i], model[i]
                    lat, lon, h = op['lat'], op['lon'], op['h']
                    pos = (lat, lon, h)
                    if op.get('h_omit'):
                        pos, h = (lat, lon), 0.0        # the height is left to its documented default: mean sea level
                    route = f"magnetic_field({d['kind']})"
                    stats['routes'][route] = stats['routes'].get(route, 0) + 1
                    if op.get('h_omit'):
                        stats['routes']['height omitted'] = stats['routes'].get('height omitted', 0) + 1
                    place_stats(lat, lon)
                    if d['kind'] == 'keep':
                        w.magnetic_field(*pos, date=None)
                    elif d['kind'] == 'omit':
                        w.magnetic_field(*pos)
                        m['date'] = dec_of(d)
                    else:
                        w.magnetic_field(*pos, date=to_arg(d))
                        m['date'] = dec_of(d)
                    m['queries'] += 1
                    before = len(viol)
                    ok = check_elements(step, w, m, lat, lon, h, route)
                    if not ok and d['kind'] == 'omit' and jumped and len(viol) == before + 1 and viol[-1]['symptom'] == 'mismatch':
                        # the omitted-date default is frozen at import time: classify, resynchronise the model
                        # with what the library did (boot date) and carry on, so that later operations are still judged
                        viol[-1]['trigger'] = 'magnetic_field(omit)-after-calendar-moved'
                        m['date'] = boot_dec
                        m['expected'] = reference(boot_dec, lat, lon, h, m['frame'])
                        continue
                    if not ok:
                        break
                elif kind == 'badquery':
                    bad = float(op['value'])
                    args = {'lat': 45.0, 'lon': 10.0, 'h': 0.0}
                    args[op['what']] = bad
                    try:
                        inst[i].magnetic_field(args['lat'], args['lon'], args['h'], date=None)
                    except Exception:       # noqa: BLE001 - refusing a non-finite place is fine
                        pass
                    model[i]['expected'] = None
                elif kind == 'frame':
                    inst[i].frame = op['frame']
                    model[i]['frame'] = op['frame'].upper()
                elif kind == 'reset':
                    d = op['date']
                    inst[i].reset_coefficients(to_arg(d))
                    model[i]['date'] = dec_of(d)
                elif kind == 'reset_date':
                    d = op['date']
                    inst[i].reset_date(to_arg(d))           # "set date to use with the model"
                    model[i]['date'] = dec_of(d)
                    model[i]['expected'] = None
                elif kind == 'read':
                    m = model[i]
                    got = inst[i].magnetic_elements
                    if m['expected'] is not None:
                        for k in ELEMS:
                            if got[k] is None or not close(float(got[k]), m['expected'][k], 1.0):
                                viol.append(v('read-changed', step, f'magnetic_elements[{k}]={got[k]} differs from the answer of the last query {m["expected"][k]:.9g}'))
                                break
                        if viol and viol[-1]['step'] == step:
                            break
                        # the vector accessor says what the elements say, and what it returns belongs to the caller
                        for rnd_ in (0, 1):
                            vec = inst[i].geodetic_vector
                            exp3 = [m['expected'][k] for k in ('X', 'Y', 'Z')]
                            if not all(close(float(a), b, 1.0) for a, b in zip(vec, exp3)):
                                viol.append(v('vector-differs', step, f'geodetic_vector={np.asarray(vec).tolist()} but X, Y, Z of the last query are {exp3}' + (' (second read, after the caller changed the first array it was handed)' if rnd_ else ''), trigger='second-read' if rnd_ else m['frame']))
                                break
                            try:
                                vec *= 0.0
                            except Exception:       # noqa: BLE001
                                pass
                        stats['vector_reads'] = stats.get('vector_reads', 0) + 1
                        if viol and viol[-1]['step'] == step:
                            break
            except Exception as e:      # noqa: BLE001
                viol.append(v(f'crash:{type(e).__name__}', step, f'{kind} {op}: {type(e).__name__}: {e}'))
                break
        c1 = boot.counters()
        stats['get_data_reads'] = c1['get_data_reads'] - c0['get_data_reads']
        stats['today_reads'] = c1['today_reads'] - c0['today_reads']
        boot.set_today(boot.BOOT_ORDINAL)
        nontrivial = jumped or any(m['queries'] >= 2 for m in model.values())
        log.add('viol', [(x['symptom'], x['step']) for x in viol])
        return {'violations': viol, 'stats': stats, 'digest': log.digest(),
                'sig': (log.digest()[:16] if nontrivial else None), 'sim_seconds': 86400.0 * stats.get('calendar_days_jumped', 0)}

    def shrink_spec(self, scn):
        return {'lists': [('ops',)],
                'resets': [(('ops', '*', 'h'), 0.0), (('ops', '*', 'frame'), 'NED'), (('ops', '*', 'lat'), 45.0), (('ops', '*', 'lon'), 10.0),
                           (('ops', '*', 'defaults'), False)],
                'max_runs': 200}


CHECK = Check()
