"""C19 -- public calls never modify the caller's arrays and are repeatable (weakest fit; stated as such).

Side effects on caller-owned buffers are state shared between an application's
tasks *through the library*; the property quantifies over call histories ("the
second call sees different data").  What is not simulation about it: the
decision for a single call is a before/after digest -- the schedule only
determines which buffers are live and shared.

Workload: the sensor-bus pipeline with every estimator class as a subscriber,
streamed and run through its batch constructor *on the shared bus arrays*, with
the bus monitor looking at every buffer after every task step; plus a toolbox
task that, tick by tick, applies a seeded public callable of the package to the
live data (estimates, samples, matrices, angles; degrees or radians; normalised
or not; single items and N-row arrays; sometimes zero-copy views of the bus).
Each toolbox call is made twice on the same argument objects with the NumPy
global RNG restored in between: the results must be identical (NaN-aware) and
the bytes of every argument unchanged.  Documented in-place methods
(normalize, remove_jumps, slerp_nan) are exempt for their receiver only.
"""
import random
import numpy as np

from .. import boot, world as W, consumers as C, kernel as K, qmath as qm, toolbox as TB

POOL = ['madgwick_imu', 'madgwick_marg', 'mahony_imu', 'mahony_marg', 'ekf_imu', 'ekf_marg', 'ukf', 'aqua_imu', 'aqua_marg', 'fourati',
        'roleq', 'angular', 'fkf', 'complementary_imu', 'complementary_marg', 'oleq', 'flae', 'tilt', 'tilt_acc', 'saam', 'famc', 'fqa',
        'quest', 'davenport', 'triad', 'aqua_alg']
_REGISTRY = None


def registry():
    global _REGISTRY
    if _REGISTRY is None:
        _REGISTRY = TB.build_registry()
    return _REGISTRY


class ToolboxTask:
    """A pipeline task: performs its k-th call as soon as the tick it refers to has been published."""

    def __init__(self, idx, calls, hist, key, pipe, viol, stats):
        self.idx, self.calls, self.hist, self.key, self.pipe = idx, calls, hist, key, pipe
        self.viol, self.stats = viol, stats
        self.j = 0
        self.dead = False
        self.finished = False

    def start(self, q0):
        pass

    def runnable(self, T):
        return self.j < len(self.calls) and self.calls[self.j]['tick'] <= T

    def done(self):
        return self.j >= len(self.calls)

    def latest_estimate(self, k):
        for t in self.pipe.tasks:
            if isinstance(t, K.StreamTask) and t.kind.recursive and isinstance(t.q, np.ndarray) and t.q.shape == (4,) and np.all(np.isfinite(t.q)) and np.any(t.q):
                return t.q
        return self.hist.truth[k]

    def step(self, log):
        call = self.calls[self.j]
        self.j += 1
        reg = {e.name: e for e in registry()}
        entry = reg.get(call['entry'])
        st = self.stats
        if entry is None:
            st['missing_entries'][call['entry']] = 1
            return
        rnd = random.Random(call['seed'])
        k = min(call['tick'], self.hist.n - 1)
        ctx = TB.Ctx(rnd, self.hist, self.key, k, self.latest_estimate(k))
        try:
            label, thunk, args, recv = TB.prepare(entry, ctx)
        except TB.Unbound as e:
            st['unbound'][entry.name] = str(e)
            return
        except Exception as e:      # noqa: BLE001 - preparing a receiver from live data may be rejected
            st['rejected'][entry.name] = st['rejected'].get(entry.name, 0) + 1
            return
        before = TB.digest_args(args)
        state = np.random.get_state()
        boot_rng = dict(boot._state)

        disturb = None
        if isinstance(recv, tuple) and len(recv) == 2 and recv[0] == 'disturb':
            disturb, recv = recv[1], None

        def invoke(first):
            if recv is None:
                return thunk()
            obj, name, kw, npos = recv
            if kw is None:
                return getattr(obj, name)
            return getattr(obj, name)(*args[:npos], **kw)       # args beyond npos are keyword arrays, digested too
        try:
            r1 = invoke(True)
        except Exception as e:      # noqa: BLE001 - the callable rejected these arguments: not a verdict
            st['rejected'][entry.name] = st['rejected'].get(entry.name, 0) + 1
            r1 = e
        after = TB.digest_args(args)
        st['calls'][entry.name] = st['calls'].get(entry.name, 0) + 1
        log.add('call', self.j, label)
        changed = [i for i, (b, a) in enumerate(zip(before, after)) if b != a]
        if changed:
            i = changed[0]
            desc = f'arg{i}:{args[i].shape}' if isinstance(args[i], np.ndarray) else f'arg{i}:list'
            shared = any(args[i] is v for _, v in ctx.shared_views)
            self.viol.append({'component': entry.name, 'symptom': 'mutates-argument', 'trigger': desc, 'step': k,
                              'detail': f'{label}: argument {i} ({type(args[i]).__name__} {getattr(args[i], "shape", "")}) was modified by the call'
                                        + (' -- it is a zero-copy view of the sensor bus, so every other subscriber now sees different data' if shared else '')})
            return
        if isinstance(r1, Exception):
            return
        if entry.fname in TB.INPLACE_RECEIVER or entry.name in TB.NOT_REPEATABLE:
            return          # documented in-place operation on the receiver: repeating it is a different request
        if disturb is not None:
            disturb()               # an unrelated call on the same (stateless) object in between
        r1_expected = r1
        if entry.kind == 'function' and disturb is None:
            # what a function returns belongs to the caller: writing into it must not change what the next call
            # returns (a result that aliases a module-level constant or cache would)
            import copy as _copy
            r1_expected = _copy.deepcopy(r1)
            saved = [a.copy() if isinstance(a, np.ndarray) else None for a in args]
            for arr in (r1 if isinstance(r1, tuple) else (r1,)):
                if isinstance(arr, np.ndarray) and arr.flags.writeable and arr.dtype.kind == 'f' and arr.size:
                    try:
                        arr += 1.2345
                    except Exception:       # noqa: BLE001
                        pass
            if TB.digest_args(args) != before:
                # the result is a view of the caller's own argument: legitimate aliasing; undo and do not judge it
                for a, sv in zip(args, saved):
                    if sv is not None:
                        a[...] = sv
                r1_expected = None
            st['scribbled'] = st.get('scribbled', 0) + 1
        np.random.set_state(state)
        boot._state.update(boot_rng)
        try:
            r2 = invoke(False)
        except Exception as e:      # noqa: BLE001
            r2 = e
        if r1_expected is None:
            return
        if r1_expected is not r1 and (isinstance(r2, Exception) or not TB.same_result(r1_expected, r2)):
            self.viol.append({'component': entry.name, 'symptom': 'result-aliases-library-state', 'trigger': 'scribble', 'step': k,
                              'detail': f'{label}: after the caller wrote into the returned array, the same call returns {_short(r2)} instead of {_short(r1_expected)}'})
            return
        if r1_expected is r1 and (isinstance(r2, Exception) or not TB.same_result(r1, r2)):
            self.viol.append({'component': entry.name, 'symptom': 'not-repeatable', 'trigger': 'same-arguments', 'step': k,
                              'detail': f'{label}: two calls with the same arguments (and NumPy seed) returned different results: {_short(r1)} then {_short(r2)}'})


def _short(x):
    try:
        return np.array2string(np.asarray(x), precision=6, threshold=8)[:160]
    except Exception:       # noqa: BLE001
        return repr(x)[:160]


class Check:
    pid = 'C19'
    nondeterminism_is_violation = True      # a run that differs when executed again *is* a call that is not repeatable
    level = 'exploration'
    run_timeout = 300
    shrink_timeout = 120
    rule = ('one case = seeded world + fault list + 3-6 estimator tasks (each streamed or run as a batch constructor on the shared bus arrays) + a '
            'toolbox schedule of 10-40 calls of public callables bound to live data, all stepped in a seeded interleaving; distinct = distinct '
            '(interleaving, toolbox schedule); non-trivial = at least one call handed the library an array that another task also reads, or a '
            'toolbox call was actually executed (not rejected)')
    assumptions = [
        'weakest fit of the eight claimed properties: the verdict for one call is a before/after digest; the simulation only decides which buffers are live and shared',
        'the registry is built by introspection and bound by (module, parameter name); callables that could not be bound or were never reached are listed by name in the evidence (coverage.stats.unbound / never_reached), not counted as covered',
        'a callable that rejects the generated arguments (any exception) is counted as rejected, not judged',
        'documented in-place methods (Quaternion.normalize, QuaternionArray.remove_jumps, slerp_nan) may change their receiver; inplace=True options are not exercised',
        'repeatability is judged with the NumPy global RNG state restored between the two calls; ahrs.Sensors draws its noise from a module-level generator and is judged for argument mutation only',
    ]
    components = {
        'real': ['public functions of ahrs.common.orientation / frames / mathfuncs, ahrs.utils.metrics, ahrs.common.quaternion; methods, properties and constructors of Quaternion, QuaternionArray, DCM; constructors and per-sample methods of every filter class'],
        'stub': ['world, sensor bus (shared zero-copy arrays), seeded scheduler, bus monitor, toolbox binder'],
    }

    def runs(self, tier):
        return 6000 if tier == 'quick' else 80000

    def wall_cap(self, tier):
        return 600 if tier == 'quick' else 6600

    @staticmethod
    def history_sensitive(scn):
        """Some task leaves its magnetic reference to the class (computed once, when the object is built)."""
        return any(c.get('params', {}).get('magnetic_ref') == 'default' or c.get('params', {}).get('ref_default') for c in scn.get('consumers', []))

    def determinism_sample(self, tier):
        return 4 if tier == 'quick' else 32

    def gen(self, seed, tier):
        rnd = random.Random(f'C19/{seed}')
        n = rnd.choice([6, 15, 40])
        world = W.gen_world(rnd, n, allow_kicks=True, allow_poses=False, magnitudes=rnd.choice(['nominal', 'unit', 'decades']))
        if rnd.random() < 0.5:
            world['faults'] = W.gen_faults(rnd, world, ['glitch', 'scale', 'stuck', 'dup'] + (['nan'] if rnd.random() < 0.3 else []) + (['dropout'] if rnd.random() < 0.3 else []), max_faults=3)
        consumers = []
        for _ in range(rnd.randint(3, 6)):
            kind = rnd.choice(POOL)
            c = {'kind': kind, 'params': C.gen_params(rnd, kind)}
            if rnd.random() < 0.5:
                c['mode'] = 'batch'
            elif rnd.random() < 0.3:
                c['reuse_buffers'] = True
            if rnd.random() < 0.3:
                c['share'] = rnd.randrange(100)      # its parameter arrays are caller-owned buffers too
            consumers.append(c)
        names = [e.name for e in registry()]
        nt = W.n_ticks_of(world)
        calls = sorted(({'entry': rnd.choice(names), 'tick': rnd.randrange(0, nt), 'seed': rnd.randrange(1 << 30)} for _ in range(rnd.randint(10, 40))),
                       key=lambda c: c['tick'])
        return {'world': world, 'consumers': consumers, 'toolbox': calls, 'sched_seed': rnd.randrange(1 << 30), 'lag_bound': rnd.choice([1, 2, 4]),
                'rng_seed': rnd.randrange(1 << 30)}

    def run(self, scn):
        boot.set_today(boot.BOOT_ORDINAL)
        boot.seed_library_rng(scn['rng_seed'])
        pipe = K.Pipeline(scn).build()
        hist = pipe.hist
        viol = []
        stats = {'calls': {}, 'rejected': {}, 'unbound': {}, 'missing_entries': {}, 'task_steps': {}, 'bus_mutations': 0, 'faults_fired': dict(hist.fired)}
        key = pipe.tasks[0].key if pipe.tasks else None
        q_inits = []
        for t in pipe.tasks:
            tq = hist.truth[0]
            q_inits.append((qm.qconj(tq) if t.kind.conj else tq.copy()) if t.kind.recursive else None)
        tb = ToolboxTask(len(pipe.tasks), scn.get('toolbox', []), hist, key, pipe, viol, stats)
        pipe.tasks.append(tb)
        q_inits.append(None)
        pipe.run(q_inits, scn['sched_seed'], lag_bound=scn.get('lag_bound', 4))
        stats['bus_mutations'] = len(pipe.monitor.mutations)
        seen = set()
        for mu in pipe.monitor.mutations:
            who = mu['by']
            if who == tb.idx:
                continue        # already reported by the toolbox with the callable's name
            t = pipe.tasks[who]
            arch = 'batch' if isinstance(t, K.BatchTask) else 'stream'
            k = (t.kind.name, arch, str(mu['array']))
            if k in seen:
                continue
            seen.add(k)
            viol.append({'component': t.kind.name, 'symptom': 'mutates-input', 'trigger': arch + ':' + (('param:' + str(mu['array']).split(':')[-1]) if str(mu['array']).startswith('param') else str(mu['array'])),
                         'step': mu['rows'][0] if mu['rows'] else None,
                         'detail': f"{arch} {t.kind.name} modified the caller's '{mu['array']}' buffer (rows {mu['rows']}) that it was handed on the shared bus"})
        for t in pipe.tasks[:-1]:
            if isinstance(t, K.StreamTask) and t.q_mutations:
                j = t.q_mutations[0]
                viol.append({'component': t.kind.name, 'symptom': 'mutates-input', 'trigger': 'stream:q', 'step': j,
                             'detail': f"stream {t.kind.name}: the a-priori quaternion array passed to the update call at sample {j} (the caller's previous attitude) was modified in place; gyr={hist.gyr[j * t.stride]}"})
        for t in pipe.tasks[:-1]:
            stats['task_steps'][t.kind.name] = stats['task_steps'].get(t.kind.name, 0) + 1
        executed = sum(stats['calls'].values()) - sum(stats['rejected'].values())
        shared = len(pipe.tasks) > 2
        sig = f"{pipe.interleaving_signature()}|{TB_hash(scn.get('toolbox', []))}" if (executed > 0 or shared) else None
        pipe.log.add('viol', [(x['component'], x['symptom'], x['trigger']) for x in viol])
        return {'violations': viol, 'stats': stats, 'digest': pipe.log.digest(), 'sig': sig, 'sim_seconds': hist.n * hist.dt}

    def shrink_spec(self, scn):
        from ..shrink import DELETE

        def normalise(c):
            if len(c['consumers']) < 1 or not any(s['t'] != 'kick' for s in c['world']['segments']):
                return None
            return c
        return {'lists': [('toolbox',), ('consumers',), ('world', 'faults'), ('world', 'segments')],
                'ints': [(('world', 'segments', '*', 'len'), 1)],
                'resets': [(('consumers', '*', 'share'), DELETE), (('world', 'noise'), {'acc': 0.0, 'mag': 0.0, 'gyr': 0.0})],
                'normalise': normalise, 'max_runs': 150}


def TB_hash(x):
    import hashlib
    import json
    return hashlib.sha256(json.dumps(x, sort_keys=True).encode()).hexdigest()[:10]


CHECK = Check()
