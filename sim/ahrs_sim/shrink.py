"""Delta-debugging of scenarios.

A scenario is a JSON value.  The check supplies ``still_fails(scn) -> bool``
(same violation signature persists) and a description of what may be reduced:

* ``lists``: paths to lists whose elements may be dropped (ddmin: halves,
  quarters, ..., single elements);
* ``ints``: paths to integers that may be lowered (binary search towards a floor);
* ``resets``: (path, simpler_value) pairs tried one by one.

Paths are tuples of keys/indices; a path element ``'*'`` expands over a list.
Deterministic: no randomness, no clock besides the caller's budget.
"""
import copy
import time

DELETE = '__delete__'


def _get(obj, path):
    for k in path:
        obj = obj[k]
    return obj


def _set(obj, path, val):
    for k in path[:-1]:
        obj = obj[k]
    obj[path[-1]] = val


def expand(scn, path):
    """Expand '*' wildcards into concrete paths that exist in scn."""
    outs = [()]
    for k in path:
        nxt = []
        for p in outs:
            try:
                cur = _get(scn, p)
            except (KeyError, IndexError, TypeError):
                continue
            if k == '*':
                if isinstance(cur, list):
                    nxt.extend(p + (i,) for i in range(len(cur)))
            else:
                if (isinstance(cur, dict) and k in cur) or (isinstance(cur, list) and isinstance(k, int) and k < len(cur)):
                    nxt.append(p + (k,))
        outs = nxt
    return outs


class Budget:
    def __init__(self, max_runs=400, max_seconds=120.0):
        self.max_runs = max_runs
        self.deadline = time.monotonic() + max_seconds
        self.runs = 0

    def ok(self):
        return self.runs < self.max_runs and time.monotonic() < self.deadline


def shrink(scn, still_fails, lists=(), ints=(), resets=(), budget=None, normalise=None):
    budget = budget or Budget()
    best = copy.deepcopy(scn)

    def attempt(cand):
        if not budget.ok():
            return False
        if normalise is not None:
            cand = normalise(cand)
            if cand is None:
                return False
        budget.runs += 1
        try:
            ok = still_fails(cand)
        except Exception:       # noqa: BLE001 - a candidate the harness cannot run is not a reduction
            ok = False
        if ok:
            nonlocal best
            best = cand
        return ok

    progress = True
    rounds = 0
    while progress and budget.ok() and rounds < 6:
        progress = False
        rounds += 1
        # 1. drop list elements (ddmin)
        for lp in lists:
            for path in expand(best, lp):
                lst = _get(best, path)
                if not isinstance(lst, list):
                    continue
                n = len(lst)
                chunk = max(1, n // 2)
                while chunk >= 1 and budget.ok():
                    i = 0
                    removed = False
                    while i < len(_get(best, path)) and budget.ok():
                        cur = _get(best, path)
                        if len(cur) <= 0:
                            break
                        cand = copy.deepcopy(best)
                        del _get(cand, path)[i:i + chunk]
                        if attempt(cand):
                            removed = True
                            progress = True
                        else:
                            i += chunk
                    if chunk == 1:
                        break
                    chunk = max(1, chunk // 2) if not removed or chunk > 1 else 1
        # 2. lower integers
        for ip, floor in ints:
            for path in expand(best, ip):
                lo, hi = floor, _get(best, path)
                if not isinstance(hi, int) or hi <= lo:
                    continue
                # try the floor first, then binary search
                cand = copy.deepcopy(best)
                _set(cand, path, lo)
                if attempt(cand):
                    progress = True
                    continue
                while hi - lo > 1 and budget.ok():
                    mid = (lo + hi) // 2
                    cand = copy.deepcopy(best)
                    _set(cand, path, mid)
                    if attempt(cand):
                        hi = mid
                        progress = True
                    else:
                        lo = mid
        # 3. resets to simpler values
        for rp, val in resets:
            for path in expand(best, rp):
                if _get(best, path) == val:
                    continue
                cand = copy.deepcopy(best)
                if val == DELETE:
                    del _get(cand, path[:-1])[path[-1]]
                else:
                    _set(cand, path, copy.deepcopy(val))
                if attempt(cand):
                    progress = True
    return best, budget.runs
