"""Seams.  Must be imported (and ``boot()`` called) before ``import ahrs``.

* calendar: a ``datetime`` shim module is put in ``sys.modules`` while ``ahrs``
  is imported, so that ``ahrs.utils.wmm`` (the only module of the package that
  reads the calendar) binds *our* ``datetime`` -- including the import-time
  default argument of ``WMM.magnetic_field``.
* library randomness: ``np.random.seed`` is owned by the run; the unseeded
  ``np.random.default_rng()`` is wrapped so it is seeded from the run.
* package-data I/O: ``pkgutil.get_data`` is wrapped with a counter (probe only).

Nothing here edits /repo.
"""
import os
import sys
import types

REPO = os.environ.get('AHRS_SIM_REPO', '/repo')
BOOT_ORDINAL = 739690          # 2026-03-15, the simulated "boot" date
_state = {'ordinal': BOOT_ORDINAL, 'today_reads': 0, 'get_data_reads': 0,
          'default_rng_calls': 0, 'rng_seed': 0, 'booted': False}


def _make_datetime_shim():
    import datetime as real
    real_date = real.date

    class _Meta(type):
        def __instancecheck__(cls, obj):
            return isinstance(obj, real_date)

        def __subclasscheck__(cls, sub):
            return issubclass(sub, real_date)

    class date(real_date, metaclass=_Meta):
        @classmethod
        def today(cls):
            _state['today_reads'] += 1
            return real_date.fromordinal(_state['ordinal'])

    shim = types.ModuleType('datetime')
    for k in dir(real):
        if not k.startswith('__'):
            setattr(shim, k, getattr(real, k))
    shim.date = date
    shim.__sim_shim__ = True
    return shim, real


def boot():
    """Install the seams and import the working tree of /repo.  Idempotent."""
    if _state['booted']:
        return sys.modules['ahrs']
    for k in ('OPENBLAS_NUM_THREADS', 'OMP_NUM_THREADS', 'MKL_NUM_THREADS'):
        os.environ.setdefault(k, '1')
    sys.dont_write_bytecode = True
    import numpy as np          # before the shim: numpy may import datetime
    import pkgutil
    if 'ahrs' in sys.modules:
        raise RuntimeError('ahrs imported before ahrs_sim.boot.boot()')
    if sys.path[0] != REPO:
        sys.path.insert(0, REPO)
    shim, real = _make_datetime_shim()
    sys.modules['datetime'] = shim
    try:
        import ahrs
        import ahrs.utils.wmm as wmm
    finally:
        sys.modules['datetime'] = real
    if not getattr(wmm.datetime, '__sim_shim__', False):
        raise RuntimeError('calendar seam not installed in ahrs.utils.wmm')
    if not os.path.realpath(ahrs.__file__).startswith(os.path.realpath(REPO) + os.sep):
        raise RuntimeError(f'ahrs imported from {ahrs.__file__}, not from {REPO}')

    real_get_data = pkgutil.get_data

    def counted_get_data(package, resource):
        _state['get_data_reads'] += 1
        return real_get_data(package, resource)
    pkgutil.get_data = counted_get_data

    real_default_rng = np.random.default_rng

    def seeded_default_rng(seed=None):
        if seed is None:
            _state['default_rng_calls'] += 1
            seed = [_state['rng_seed'] & 0xFFFFFFFF, _state['default_rng_calls']]
        return real_default_rng(seed)
    np.random.default_rng = seeded_default_rng
    np.seterr(all='ignore')
    import warnings
    warnings.simplefilter('ignore')
    _state['booted'] = True
    return ahrs


# ---- calendar clock -------------------------------------------------------
def set_today(ordinal: int):
    _state['ordinal'] = int(ordinal)


def today_ordinal() -> int:
    return _state['ordinal']


def counters():
    return {k: _state[k] for k in ('today_reads', 'get_data_reads', 'default_rng_calls')}


# ---- library RNG ----------------------------------------------------------
def seed_library_rng(seed: int):
    import numpy as np
    _state['rng_seed'] = int(seed)
    _state['default_rng_calls'] = 0
    np.random.seed(int(seed) & 0xFFFFFFFF)


def library_rng_digest() -> str:
    import hashlib
    import numpy as np
    st = np.random.get_state()
    h = hashlib.sha256()
    h.update(st[1].tobytes())
    h.update(repr(st[2:]).encode())
    return h.hexdigest()[:16]
