"""Self-tests of the harness itself (not registered as property checks).

    ./check selftest determinism [--seeds N]   digests of N seeds per check: twice in-process, in fresh
                                               interpreters under other PYTHONHASHSEEDs, at worker counts 1/4/16;
                                               first with *stub consumers* (pure-Python dummy filters: a mismatch
                                               there is a harness bug), then with the real library
    ./check selftest evidence                  validate evidence/*.json and MANIFEST.json against the schemas
                                               (needs python3-vt for jsonschema)
Exit 0 = all good, 2 = harness problem.
"""
import concurrent.futures as cf
import hashlib
import json
import multiprocessing
import os
import random
import subprocess
import sys

import numpy as np

from . import consumers as C, kernel as K, world as W, runner

CHECKS = ['c06', 'c13', 'c05', 'c03', 'c08', 'c15', 'c12', 'c19']


# ---- stub consumers -----------------------------------------------------------
class _StubFilter:
    """Deterministic pure-Python 'filter' with carried state, a dict and a set inside
    (so that hash randomisation would show if the kernel leaked iteration order)."""

    def __init__(self, gain):
        self.gain = gain
        self.state = np.zeros(3)
        self.seen = set()
        self.Dt = 0.01

    def update(self, q, g, a, m):
        self.seen.add(round(float(g[0]), 6))
        self.state = 0.9 * self.state + self.gain * np.asarray(a) / (1.0 + np.linalg.norm(a))
        q = np.asarray(q, dtype=float) + 0.01 * np.r_[0.0, self.state] + 1e-3 * np.r_[0.0, np.asarray(m)] / (1.0 + np.linalg.norm(m))
        return q / np.linalg.norm(q)


class StubKind(C.Kind):
    name, sensors = 'stub', 'gam'

    def make(self, p, dt, dip):
        return _StubFilter(p.get('gain', 0.1))

    def batch(self, p, dt, dip, gyr, acc, mag):
        f = _StubFilter(p.get('gain', 0.1))
        Q = np.zeros((len(gyr), 4))
        Q[0] = [1, 0, 0, 0]
        for t in range(1, len(gyr)):
            Q[t] = f.update(Q[t - 1], gyr[t], acc[t], mag[t])
        return f, Q

    def step(self, inst, p, q, g, a, m, dt_call):
        return inst.update(q, g, a, m)


def stub_digest(seed):
    C.KINDS['stub'] = StubKind()
    rnd = random.Random(f'stub/{seed}')
    world = W.gen_world(rnd, rnd.choice([20, 60, 150]), allow_kicks=True)
    world['faults'] = W.gen_faults(rnd, world, ['glitch', 'scale', 'stuck', 'dup', 'dropout'], max_faults=5)
    scn = {'world': world, 'consumers': [{'kind': 'stub', 'params': {'gain': rnd.random()}} for _ in range(rnd.randint(2, 5))]}
    pipe = K.Pipeline(scn).build()
    pipe.run([np.array([1.0, 0, 0, 0])] * len(pipe.tasks), rnd.randrange(1 << 30), lag_bound=rnd.choice([1, 2, 4, 8]), starve=rnd.choice([None, 0, 1]))
    for t in pipe.tasks:
        pipe.log.add('seen', sorted(t.inst.seen)[:5])
    return pipe.log.digest()


def _digest_job(args):
    name, seed, tier = args
    if name == 'stub':
        return name, seed, stub_digest(seed)
    import importlib
    chk = importlib.import_module(f'ahrs_sim.checks.{name}').CHECK
    return name, seed, chk.run(chk.gen(seed, tier))['digest']


def _available():
    out = []
    for c in CHECKS:
        if os.path.exists(os.path.join(os.path.dirname(__file__), 'checks', f'{c}.py')):
            out.append(c)
    return out


def digests(names, seeds, tier, workers):
    jobs = [(n, s, tier) for n in names for s in seeds]
    if workers <= 1:
        res = [_digest_job(j) for j in jobs]
    else:
        with cf.ProcessPoolExecutor(workers, mp_context=multiprocessing.get_context('fork')) as pool:
            res = list(pool.map(_digest_job, jobs, chunksize=2))
    return {f'{n}:{s}': d for n, s, d in res}


def cmd_determinism(argv):
    import argparse
    ap = argparse.ArgumentParser()
    ap.add_argument('--seeds', type=int, default=24)
    ap.add_argument('--names', default='')
    ap.add_argument('--emit', action='store_true')
    ap.add_argument('--workers', type=int, default=16)
    ap.add_argument('--tier', default='quick')
    a = ap.parse_args(argv)
    names = a.names.split(',') if a.names else ['stub'] + _available()
    seeds = list(range(1000, 1000 + a.seeds))
    if a.emit:
        print(json.dumps(digests(names, seeds, a.tier, a.workers), sort_keys=True))
        return 0
    base = digests(names, seeds, a.tier, 16)
    problems = []
    again = digests(names, seeds, a.tier, 16)
    if again != base:
        problems.append(('in-process x2', [k for k in base if base[k] != again[k]]))
    for hs, w in (('1', 1), ('31337', 4), ('777', 16)):
        env = dict(os.environ, PYTHONHASHSEED=hs)
        pr = subprocess.run([sys.executable, runner.MAIN, 'selftest', 'determinism', '--emit', '--seeds', str(a.seeds),
                             '--names', ','.join(names), '--workers', str(w), '--tier', a.tier],
                            capture_output=True, text=True, env=env, timeout=3000)
        try:
            other = json.loads(pr.stdout.strip().splitlines()[-1])
        except Exception:       # noqa: BLE001
            problems.append((f'hashseed {hs} workers {w}', pr.stderr[-500:]))
            continue
        bad = [k for k in base if base[k] != other.get(k)]
        if bad:
            problems.append((f'hashseed {hs} workers {w}', bad[:10]))
    print(f'determinism: {len(base)} digests ({len(names)} workloads x {len(seeds)} seeds), 2 in-process executions, 3 fresh interpreters '
          f'(PYTHONHASHSEED 1/31337/777, workers 1/4/16)')
    if problems:
        stub_bad = any(any(str(k).startswith('stub:') for k in b) if isinstance(b, list) else True for _, b in problems)
        for p in problems:
            print('MISMATCH', p)
        print('stub consumers affected: harness bug' if stub_bad else 'stubs clean: the real library is not deterministic (a C06 matter)')
        return 2
    print('all digests equal')
    return 0


def cmd_evidence(argv):
    code = ("import json,glob,jsonschema,sys\n"
            "es=json.load(open('/root/.vp/EVIDENCE.schema.json'));ms=json.load(open('/root/.vp/MANIFEST.schema.json'))\n"
            "m=json.load(open('/verif/MANIFEST.json'));jsonschema.validate(m,ms)\n"
            "ok=True\n"
            "for c in m['checks']:\n"
            "    p=c['evidence_file']\n"
            "    try:\n"
            "        e=json.load(open(p));jsonschema.validate(e,es);print('valid',p,e['tier'],e['coverage']['evaluations'],e['coverage']['distinct_nontrivial'])\n"
            "    except Exception as ex:\n"
            "        ok=False;print('INVALID',p,str(ex)[:300])\n"
            "sys.exit(0 if ok else 2)\n")
    return subprocess.run(['python3-vt', '-c', code]).returncode


def main(argv):
    if not argv:
        print(__doc__)
        return 2
    if argv[0] == 'determinism':
        return cmd_determinism(argv[1:])
    if argv[0] == 'evidence':
        return cmd_evidence(argv[1:])
    print(__doc__)
    return 2
