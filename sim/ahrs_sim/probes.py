"""Rare-branch probes ("this rare condition was hit"), counted with sys.monitoring on a sample of the runs.

A probe is (name, file under /repo/ahrs, regular expression of one source line).  The line numbers are
resolved from the working tree when the harness starts, so the probes follow the code when it is edited; a
probe whose line cannot be found is reported as ``unresolved`` (never silently dropped), a probe that is
never hit in a tier is reported with a count of 0.  Lines that are not probes are disabled after their first
event, so a probed run costs little; still only every 8th run is probed.
"""
import os
import re
import sys

PROBES = [
    ('madgwick: MARG falls back to IMU on a null magnetometer sample', 'filters/madgwick.py', r'return self\.updateIMU\(q, gyr, acc, dt\)'),
    ('madgwick: zero-gyro early return', 'filters/madgwick.py', r'^\s+return q\.to_array\(\)'),
    ('mahony: MARG falls back to IMU on a null magnetometer sample', 'filters/mahony.py', r'return self\.updateIMU\(q, gyr, acc, dt\)'),
    ('ekf: null accelerometer sample returns the prior', 'filters/ekf.py', r'^ {12}return q\s*$'),
    ('ekf: null magnetometer sample refused', 'filters/ekf.py', r'Invalid geomagnetic field'),
    ('ukf: Cholesky regularisation branch', 'filters/ukf.py', r'regularized_covariance = '),
    ('ukf: null accelerometer sample refused', 'filters/ukf.py', r'Accelerometer sample must be non-zero'),
    ('aqua: SLERP branch of slerp_I', 'filters/aqua.py', r'angle = np\.arccos\(q\[0\]\)'),
    ('aqua: null accelerometer -> integrated quaternion', 'filters/aqua.py', r'return qInt\.to_array\(\)'),
    ('roleq: correction skipped on a null sample', 'filters/roleq.py', r'^\s+return q_omega\s*$'),
    ('roleq: first sample cannot initialise', 'filters/roleq.py', r'first accelerometer and magnetometer samples must be non-zero'),
    ('fourati: null accelerometer refused', 'filters/fourati.py', r'Accelerometer data is null'),
    ('fourati: null magnetometer refused', 'filters/fourati.py', r'Magnetometer data is null'),
    ('fkf: null sample refused', 'filters/fkf.py', r'Accelerometer and magnetometer samples must be non-zero'),
    ('complementary: null accelerometer row refused', 'filters/complementary.py', r'All gravitational acceleration measurements must be non-zero'),
    ('angular: series branch', 'filters/angular.py', r'np\.linalg\.matrix_power\(S, i\)'),
    ('flae: singular matrix fallback to identity', 'filters/flae.py', r'return np\.array\(\[1\.,? ?0\.,? ?0\.,? ?0\.\]\)|return np\.array\(\[1\.0, 0\.0, 0\.0, 0\.0\]\)'),
    ('oleq: null sample -> None', 'filters/oleq.py', r'^\s+return None\s*$'),
    ('ecompass: zero vector refused', 'common/orientation.py', r'Input vectors must be non-zero\.'),
    ('slerp: linear shortcut (LERP) branch', 'common/quaternion.py', r'result = p\[np\.newaxis, :\] \+ t_array'),
    ('slerp: far endpoint negated (shortest arc)', 'common/quaternion.py', r'^\s+q \*= -1\.0'),
    ('remove_jumps: a stretch is negated', 'common/quaternion.py', r'self\.array\[j\[0\]:j\[1\]\] \*= -1\.0'),
    ('get_nan_intervals: no NaN at all', 'utils/core.py', r'^\s+if nan_indices\.size == 0:'),
    ('wmm: date omitted -> today at call time', 'utils/wmm.py', r'date = datetime\.date\.today\(\)'),
    ('wmm: date=None keeps the date, reloads coefficients', 'utils/wmm.py', r'^\s+self\.load_coefficients\(self\.wmm_filename\)\s*$'),
    ('wmm: WMM2015 file selected', 'utils/wmm.py', r"self\.wmm_filename = 'WMM2015/WMM\.COF'"),
    ('wmm: WMM2020 file selected', 'utils/wmm.py', r"self\.wmm_filename = 'WMM2020/WMM\.COF'"),
    ('wmm: polar branch (cos_lat == 0)', 'utils/wmm.py', r'Bp \+= arn2 ?\* ?gshc'),
]

_targets = {}       # (abs filename, line) -> probe name
_unresolved = []
_counts = {}
_active = False
TOOL = getattr(sys.monitoring, 'PROFILER_ID', 2) if hasattr(sys, 'monitoring') else None


def resolve(repo):
    _targets.clear()
    _unresolved.clear()
    for name, rel, pat in PROBES:
        path = os.path.realpath(os.path.join(repo, 'ahrs', rel))
        try:
            lines = open(path, encoding='utf-8', errors='replace').read().splitlines()
        except OSError:
            _unresolved.append(name)
            continue
        rx = re.compile(pat)
        hits = [i + 1 for i, l in enumerate(lines) if rx.search(l)]
        if not hits:
            _unresolved.append(name)
        for ln in hits:
            _targets[(path, ln)] = name
    return len(_targets)


def _on_line(code, line):
    name = _targets.get((code.co_filename, line))
    if name is None:
        return sys.monitoring.DISABLE
    _counts[name] = _counts.get(name, 0) + 1
    return None


def start():
    global _active
    if TOOL is None or not _targets or _active:
        return False
    try:
        sys.monitoring.use_tool_id(TOOL, 'ahrs_sim.probes')
    except ValueError:
        return False
    sys.monitoring.register_callback(TOOL, sys.monitoring.events.LINE, _on_line)
    sys.monitoring.restart_events()
    sys.monitoring.set_events(TOOL, sys.monitoring.events.LINE)
    _counts.clear()
    _active = True
    return True


def stop():
    """Returns {probe name: hits} of the run that just ended."""
    global _active
    if not _active:
        return {}
    sys.monitoring.set_events(TOOL, 0)
    sys.monitoring.register_callback(TOOL, sys.monitoring.events.LINE, None)
    sys.monitoring.free_tool_id(TOOL)
    _active = False
    return dict(_counts)


def all_names():
    return [p[0] for p in PROBES]


def unresolved():
    return list(_unresolved)
