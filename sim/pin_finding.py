#!/venv/bin/python
"""Developer tool (never run by a check): add an open known finding with a pinned repro scenario.

    pin_finding.py <PID> <finding-id> <component> <symptom> <trigger|any> (--seed N --tier T | --replay FILE) --what "..."
The scenario is executed first; it must produce a violation with that (component, symptom).
"""
import argparse, importlib, json, os, sys
HERE = os.path.dirname(os.path.abspath(__file__))
sys.path.insert(0, HERE)
from ahrs_sim import boot
boot.boot()
from ahrs_sim import runner

ap = argparse.ArgumentParser()
ap.add_argument('pid'); ap.add_argument('fid'); ap.add_argument('component'); ap.add_argument('symptom'); ap.add_argument('trigger')
ap.add_argument('--seed', type=int); ap.add_argument('--tier', default='thorough'); ap.add_argument('--replay'); ap.add_argument('--what', required=True)
ap.add_argument('--shrink', action='store_true')
a = ap.parse_args()
chk = importlib.import_module(f'ahrs_sim.checks.{a.pid.lower()}').CHECK
scn = json.load(open(a.replay))['scenario'] if a.replay else chk.gen(a.seed, a.tier)
res = chk.run(scn)
import fnmatch
hit = [v for v in res['violations'] if v['component'] == a.component and v['symptom'] == a.symptom and (a.trigger == 'any' or fnmatch.fnmatchcase(str(v.get('trigger')), a.trigger))]
if not hit:
    print('scenario does not produce that violation; got', [(v['component'], v['symptom'], v.get('trigger')) for v in res['violations']])
    sys.exit(1)
if a.shrink:
    runner._CHECK = chk
    scn, v, n, dg = runner._shrink_one((scn, hit[0]))
    print('shrunk with', n, 'runs')
data = json.load(open(runner.KNOWN))
data['findings'] = [e for e in data['findings'] if e['id'] != a.fid]
data['findings'].append({'id': a.fid, 'property': a.pid, 'component': a.component, 'symptom': a.symptom, 'trigger': a.trigger,
                         'status': 'open', 'what': a.what, 'repro': scn})
data['findings'].sort(key=lambda e: e['id'])
json.dump(data, open(runner.KNOWN, 'w'), indent=1)
print('pinned', a.fid, hit[0]['detail'][:200])
